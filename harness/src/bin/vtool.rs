//! Multi-call helper used *inside* workload scripts by both shells (brush and bash).
//! Invoked through hard links named after the sub-tool (argv[0] basename) or as `vtool <tool> ...`.
//!
//! Every line a tool prints starts with '@' so observations can be separated from shell diagnostics.

use std::io::{Read, Write};
use std::os::unix::ffi::OsStrExt;

fn hex(bytes: &[u8]) -> String {
    if bytes.is_empty() {
        return "-".to_string();
    }
    let mut s = String::with_capacity(bytes.len() * 2);
    for b in bytes {
        s.push_str(&format!("{b:02x}"));
    }
    s
}

fn append_line(path: &str, line: &str) {
    // One write(2) on an O_APPEND descriptor: atomic with respect to other appenders.
    let mut f = std::fs::OpenOptions::new()
        .create(true)
        .append(true)
        .open(path)
        .expect("open log");
    let mut l = line.to_string();
    l.push('\n');
    f.write_all(l.as_bytes()).expect("append");
}

fn out_line(dest: &Option<String>, line: &str) {
    match dest {
        Some(p) => append_line(p, line),
        None => {
            let mut l = line.to_string();
            l.push('\n');
            let _ = std::io::stdout().write_all(l.as_bytes());
        }
    }
}

/// argdump [-o FILE] [-t TAG] [--] args...   ->  "@A[TAG] <argc> <hex>..."
fn argdump(args: &[std::ffi::OsString]) -> i32 {
    let mut i = 0;
    let mut dest = None;
    let mut tag = String::new();
    while i < args.len() {
        let a = args[i].as_bytes();
        if a == b"-o" && i + 1 < args.len() {
            dest = Some(args[i + 1].to_string_lossy().to_string());
            i += 2;
        } else if a == b"-t" && i + 1 < args.len() {
            tag = args[i + 1].to_string_lossy().to_string();
            i += 2;
        } else if a == b"--" {
            i += 1;
            break;
        } else {
            break;
        }
    }
    let rest = &args[i..];
    let mut line = format!("@A{tag} {}", rest.len());
    for a in rest {
        line.push(' ');
        line.push_str(&hex(a.as_bytes()));
    }
    out_line(&dest, &line);
    0
}

fn gen_line(idx: u64, seed: u64) -> Vec<u8> {
    // 32 bytes, unique per (idx, seed).
    let s = format!("L{idx:010} S{seed:06} ");
    let mut v = s.into_bytes();
    let mut x = idx.wrapping_mul(6364136223846793005).wrapping_add(seed).wrapping_add(1442695040888963407);
    while v.len() < 31 {
        x ^= x >> 12;
        x ^= x << 25;
        x ^= x >> 27;
        v.push(b'a' + ((x.wrapping_mul(2685821657736338717) >> 59) as u8 % 26));
    }
    v.push(b'\n');
    v
}

fn gen_bytes(n: u64, seed: u64) -> Vec<u8> {
    let mut out = Vec::with_capacity(n as usize);
    let full = n / 32;
    for i in 0..full {
        out.extend_from_slice(&gen_line(i, seed));
    }
    let rem = n % 32;
    if rem > 0 {
        for _ in 0..rem - 1 {
            out.push(b'x');
        }
        out.push(b'\n');
    }
    out
}

/// gen BYTES SEED [--chunk N] [--delay MS]  -> BYTES bytes of unique numbered lines on stdout.
/// Exit status 0, or 141-style death by SIGPIPE if the reader went away (default SIGPIPE disposition
/// is restored first, as for any ordinary program).
fn gen_cmd(args: &[String]) -> i32 {
    unsafe {
        libc::signal(libc::SIGPIPE, libc::SIG_DFL);
    }
    let n: u64 = args.first().and_then(|s| s.parse().ok()).unwrap_or(0);
    let seed: u64 = args.get(1).and_then(|s| s.parse().ok()).unwrap_or(0);
    let mut chunk = 65536usize;
    let mut delay = 0u64;
    let mut i = 2;
    while i + 1 < args.len() {
        match args[i].as_str() {
            "--chunk" => chunk = args[i + 1].parse().unwrap_or(65536),
            "--delay" => delay = args[i + 1].parse().unwrap_or(0),
            _ => {}
        }
        i += 2;
    }
    let data = gen_bytes(n, seed);
    let mut out = std::io::stdout().lock();
    for c in data.chunks(chunk.max(1)) {
        if out.write_all(c).is_err() {
            return 1;
        }
        let _ = out.flush();
        if delay > 0 {
            std::thread::sleep(std::time::Duration::from_millis(delay));
        }
    }
    0
}

/// sink [-o FILE] [-t TAG] [--expect BYTES SEED] [--delay MS] [--chunk N]
/// Reads stdin to EOF. Prints "@S[TAG] bytes=N ok=1|0 [first_bad=OFF]".
fn sink(args: &[String]) -> i32 {
    let mut dest = None;
    let mut tag = String::new();
    let mut expect: Option<(u64, u64)> = None;
    let mut delay = 0u64;
    let mut chunk = 65536usize;
    let mut i = 0;
    while i < args.len() {
        match args[i].as_str() {
            "-o" => {
                dest = args.get(i + 1).cloned();
                i += 2;
            }
            "-t" => {
                tag = args.get(i + 1).cloned().unwrap_or_default();
                i += 2;
            }
            "--expect" => {
                let n = args.get(i + 1).and_then(|s| s.parse().ok()).unwrap_or(0);
                let s = args.get(i + 2).and_then(|s| s.parse().ok()).unwrap_or(0);
                expect = Some((n, s));
                i += 3;
            }
            "--delay" => {
                delay = args.get(i + 1).and_then(|s| s.parse().ok()).unwrap_or(0);
                i += 2;
            }
            "--chunk" => {
                chunk = args.get(i + 1).and_then(|s| s.parse().ok()).unwrap_or(65536);
                i += 2;
            }
            _ => i += 1,
        }
    }
    let mut data = Vec::new();
    let mut buf = vec![0u8; chunk.max(1)];
    let mut stdin = std::io::stdin().lock();
    loop {
        match stdin.read(&mut buf) {
            Ok(0) => break,
            Ok(n) => {
                data.extend_from_slice(&buf[..n]);
                if delay > 0 {
                    std::thread::sleep(std::time::Duration::from_millis(delay));
                }
            }
            Err(e) if e.kind() == std::io::ErrorKind::Interrupted => {}
            Err(_) => break,
        }
    }
    let mut line = format!("@S{tag} bytes={}", data.len());
    if let Some((n, s)) = expect {
        let want = gen_bytes(n, s);
        if want == data {
            line.push_str(" ok=1");
        } else {
            let first_bad = want
                .iter()
                .zip(data.iter())
                .position(|(a, b)| a != b)
                .unwrap_or(want.len().min(data.len()));
            line.push_str(&format!(" ok=0 want={} first_bad={first_bad}", want.len()));
        }
    } else {
        // cheap order-sensitive checksum (FNV-1a 64)
        let mut h: u64 = 0xcbf29ce484222325;
        for b in &data {
            h ^= u64::from(*b);
            h = h.wrapping_mul(0x100000001b3);
        }
        line.push_str(&format!(" fnv={h:016x}"));
    }
    out_line(&dest, &line);
    0
}

/// filt [--chunk N] [--start-delay MS] [--delay MS] [--exit-after BYTES] [--status S]
/// Copies stdin to stdout.
fn filt(args: &[String]) -> i32 {
    unsafe {
        libc::signal(libc::SIGPIPE, libc::SIG_DFL);
    }
    let mut chunk = 65536usize;
    let mut start_delay = 0u64;
    let mut delay = 0u64;
    let mut exit_after: Option<u64> = None;
    let mut status = 0;
    let mut i = 0;
    while i + 1 < args.len() {
        let v = &args[i + 1];
        match args[i].as_str() {
            "--chunk" => chunk = v.parse().unwrap_or(65536),
            "--start-delay" => start_delay = v.parse().unwrap_or(0),
            "--delay" => delay = v.parse().unwrap_or(0),
            "--exit-after" => exit_after = v.parse().ok(),
            "--status" => status = v.parse().unwrap_or(0),
            _ => {}
        }
        i += 2;
    }
    if start_delay > 0 {
        std::thread::sleep(std::time::Duration::from_millis(start_delay));
    }
    let mut total = 0u64;
    let mut buf = vec![0u8; chunk.max(1)];
    let mut stdin = std::io::stdin().lock();
    let mut out = std::io::stdout().lock();
    loop {
        if let Some(lim) = exit_after {
            if total >= lim {
                return status;
            }
        }
        match stdin.read(&mut buf) {
            Ok(0) => break,
            Ok(n) => {
                total += n as u64;
                if out.write_all(&buf[..n]).is_err() {
                    return 1;
                }
                let _ = out.flush();
                if delay > 0 {
                    std::thread::sleep(std::time::Duration::from_millis(delay));
                }
            }
            Err(e) if e.kind() == std::io::ErrorKind::Interrupted => {}
            Err(_) => return 1,
        }
    }
    status
}

/// envdump [-o FILE] [-t TAG] [PREFIX...]  -> "@E[TAG] name=hex ..." sorted, only names with a given prefix
fn envdump(args: &[String]) -> i32 {
    let mut dest = None;
    let mut tag = String::new();
    let mut prefixes = vec![];
    let mut i = 0;
    while i < args.len() {
        match args[i].as_str() {
            "-o" => {
                dest = args.get(i + 1).cloned();
                i += 2;
            }
            "-t" => {
                tag = args.get(i + 1).cloned().unwrap_or_default();
                i += 2;
            }
            p => {
                prefixes.push(p.to_string());
                i += 1;
            }
        }
    }
    let mut items: Vec<(Vec<u8>, Vec<u8>)> = std::env::vars_os()
        .map(|(k, v)| (k.as_bytes().to_vec(), v.as_bytes().to_vec()))
        .filter(|(k, _)| {
            prefixes.is_empty() || prefixes.iter().any(|p| k.starts_with(p.as_bytes()))
        })
        .collect();
    items.sort();
    let mut line = format!("@E{tag}");
    for (k, v) in items {
        line.push(' ');
        line.push_str(&String::from_utf8_lossy(&k));
        line.push('=');
        line.push_str(&hex(&v));
    }
    out_line(&dest, &line);
    0
}

/// Comparable description: fd:kind:name:mode:offset where name is the basename of a regular file / device,
/// or the kind for pipes and sockets.
fn fd_desc_names(fd: i32) -> Option<String> {
    let mut st: libc::stat = unsafe { std::mem::zeroed() };
    if unsafe { libc::fstat(fd, &mut st) } != 0 {
        return None;
    }
    let fl = unsafe { libc::fcntl(fd, libc::F_GETFL) };
    let acc = match fl & libc::O_ACCMODE {
        libc::O_RDONLY => "r",
        libc::O_WRONLY => "w",
        _ => "rw",
    };
    let app = if fl & libc::O_APPEND != 0 { "a" } else { "" };
    let link = std::fs::read_link(format!("/proc/self/fd/{fd}"))
        .map(|p| p.to_string_lossy().to_string())
        .unwrap_or_default();
    let (kind, name) = match st.st_mode & libc::S_IFMT {
        libc::S_IFREG => ("reg", link.rsplit('/').next().unwrap_or("").to_string()),
        libc::S_IFDIR => ("dir", link.rsplit('/').next().unwrap_or("").to_string()),
        libc::S_IFCHR => ("chr", link.rsplit('/').next().unwrap_or("").to_string()),
        libc::S_IFIFO => ("fifo", "pipe".to_string()),
        libc::S_IFSOCK => ("sock", "socket".to_string()),
        _ => ("oth", "other".to_string()),
    };
    let off = if kind == "reg" { unsafe { libc::lseek(fd, 0, libc::SEEK_CUR) } } else { 0 };
    Some(format!("{fd}:{kind}:{name}:{acc}{app}:{off}"))
}

fn fd_desc(fd: i32) -> Option<String> {
    let mut st: libc::stat = unsafe { std::mem::zeroed() };
    let r = unsafe { libc::fstat(fd, &mut st) };
    if r != 0 {
        return None;
    }
    let fl = unsafe { libc::fcntl(fd, libc::F_GETFL) };
    let acc = match fl & libc::O_ACCMODE {
        libc::O_RDONLY => "r",
        libc::O_WRONLY => "w",
        _ => "rw",
    };
    let app = if fl & libc::O_APPEND != 0 { "a" } else { "" };
    let kind = match st.st_mode & libc::S_IFMT {
        libc::S_IFREG => "reg",
        libc::S_IFDIR => "dir",
        libc::S_IFCHR => "chr",
        libc::S_IFIFO => "fifo",
        libc::S_IFSOCK => "sock",
        _ => "oth",
    };
    let off = unsafe { libc::lseek(fd, 0, libc::SEEK_CUR) };
    let link = std::fs::read_link(format!("/proc/self/fd/{fd}"))
        .map(|p| p.to_string_lossy().to_string())
        .unwrap_or_default();
    Some(format!(
        "{fd}:{kind}:{}:{}:{acc}{app}:{off}:{}",
        st.st_dev,
        st.st_ino,
        hex(link.as_bytes())
    ))
}

/// fdprobe [-o FILE] [-t TAG] [--max N]  -> "@F[TAG] fd:kind:dev:ino:mode:offset:hexlink ..."
fn fdprobe(args: &[String]) -> i32 {
    let mut dest = None;
    let mut tag = String::new();
    let mut max = 64;
    let mut names = false;
    let mut i = 0;
    while i < args.len() {
        match args[i].as_str() {
            "-o" => {
                dest = args.get(i + 1).cloned();
                i += 2;
            }
            "-t" => {
                tag = args.get(i + 1).cloned().unwrap_or_default();
                i += 2;
            }
            "--names" => {
                names = true;
                i += 1;
            }
            "--max" => {
                max = args.get(i + 1).and_then(|s| s.parse().ok()).unwrap_or(64);
                i += 2;
            }
            _ => i += 1,
        }
    }
    // Probe before opening anything ourselves.
    let mut line = format!("@F{tag}");
    for fd in 0..max {
        if let Some(d) = if names { fd_desc_names(fd) } else { fd_desc(fd) } {
            line.push(' ');
            line.push_str(&d);
        }
    }
    out_line(&dest, &line);
    0
}

/// fdcount [-o FILE] [-t TAG] PID -> "@C[TAG] total=N file=.. pipe=.. socket=.. anon=.. other=.. zombies=Z children=K threads=T"
fn fdcount(args: &[String]) -> i32 {
    let mut dest = None;
    let mut tag = String::new();
    let mut pid = String::new();
    let mut i = 0;
    while i < args.len() {
        match args[i].as_str() {
            "-o" => {
                dest = args.get(i + 1).cloned();
                i += 2;
            }
            "-t" => {
                tag = args.get(i + 1).cloned().unwrap_or_default();
                i += 2;
            }
            p => {
                pid = p.to_string();
                i += 1;
            }
        }
    }
    let (mut total, mut file, mut pipe, mut socket, mut anon, mut other) = (0, 0, 0, 0, 0, 0);
    if let Ok(rd) = std::fs::read_dir(format!("/proc/{pid}/fd")) {
        for e in rd.flatten() {
            total += 1;
            let l = std::fs::read_link(e.path())
                .map(|p| p.to_string_lossy().to_string())
                .unwrap_or_default();
            if l.starts_with("pipe:") {
                pipe += 1;
            } else if l.starts_with("socket:") {
                socket += 1;
            } else if l.starts_with("anon_inode:") {
                anon += 1;
            } else if l.starts_with('/') {
                file += 1;
            } else {
                other += 1;
            }
        }
    }
    // children of pid: scan /proc/*/stat for ppid == pid
    let mypid = std::process::id().to_string();
    let (mut zombies, mut children) = (0, 0);
    if let Ok(rd) = std::fs::read_dir("/proc") {
        for e in rd.flatten() {
            let name = e.file_name().to_string_lossy().to_string();
            if !name.chars().all(|c| c.is_ascii_digit()) || name == mypid {
                continue;
            }
            if let Ok(stat) = std::fs::read_to_string(format!("/proc/{name}/stat")) {
                if let Some(rp) = stat.rfind(')') {
                    let rest: Vec<&str> = stat[rp + 1..].split_whitespace().collect();
                    if rest.len() > 1 && rest[1] == pid {
                        children += 1;
                        if rest[0] == "Z" {
                            zombies += 1;
                        }
                    }
                }
            }
        }
    }
    let threads = std::fs::read_dir(format!("/proc/{pid}/task"))
        .map(|d| d.count())
        .unwrap_or(0);
    out_line(
        &dest,
        &format!(
            "@C{tag} total={total} file={file} pipe={pipe} socket={socket} anon={anon} other={other} zombies={zombies} children={children} threads={threads}"
        ),
    );
    0
}

/// wr TAG [STATUS]: the redirection probe. Writes "@o.TAG out" to fd 1, "@e.TAG err" to fd 2, "@w<N>.TAG" to every other
/// open writable fd 3..9, reads one line from fd 0 and from every open readable fd 3..9 (reported on fd 1 as
/// "@i<N>.TAG <hex>"), and reports the table of open fds 0..9 with their access modes as "@t.TAG 0:r 1:w ...".
/// All reports that go to fd 1 are lost if fd 1 is closed - which is itself an observation.
fn wr(args: &[String]) -> i32 {
    let tag = args.first().cloned().unwrap_or_default();
    let status: i32 = args.get(1).and_then(|s| s.parse().ok()).unwrap_or(0);
    let mut table = String::new();
    let mut reads = String::new();
    for fd in 0..10 {
        let fl = unsafe { libc::fcntl(fd, libc::F_GETFL) };
        if fl < 0 {
            continue;
        }
        let acc = fl & libc::O_ACCMODE;
        let a = match acc {
            libc::O_RDONLY => "r",
            libc::O_WRONLY => "w",
            _ => "rw",
        };
        table.push_str(&format!(" {fd}:{a}"));
        if (fd == 0 || fd >= 3) && acc != libc::O_WRONLY {
            // read up to one line, byte by byte so that nothing beyond it is consumed
            let mut line = Vec::new();
            let mut b = [0u8; 1];
            loop {
                let n = unsafe { libc::read(fd, b.as_mut_ptr().cast(), 1) };
                if n <= 0 || b[0] == b'\n' || line.len() > 200 {
                    break;
                }
                line.push(b[0]);
            }
            reads.push_str(&format!("@i{fd}.{tag} {}\n", hex(&line)));
        }
        if fd >= 3 && acc != libc::O_RDONLY {
            let msg = format!("@w{fd}.{tag} w\n");
            unsafe {
                libc::write(fd, msg.as_ptr().cast(), msg.len());
            }
        }
    }
    let out = format!("@o.{tag} out\n{reads}@t.{tag}{table}\n");
    unsafe {
        libc::write(1, out.as_ptr().cast(), out.len());
    }
    let err = format!("@e.{tag} err\n");
    unsafe {
        libc::write(2, err.as_ptr().cast(), err.len());
    }
    status
}

/// dumpf TAG FILE...: "@D.TAG name hex" for every existing file (content capped at 4 KiB), "@M.TAG name" for missing ones.
fn dumpf(args: &[String]) -> i32 {
    let tag = args.first().cloned().unwrap_or_default();
    for name in args.iter().skip(1) {
        match std::fs::read(name) {
            Ok(mut data) => {
                data.truncate(4096);
                println!("@D.{tag} {name} {}", hex(&data));
            }
            Err(_) => println!("@M.{tag} {name}"),
        }
    }
    0
}

fn msleep(args: &[String]) -> i32 {
    let ms: u64 = args.first().and_then(|s| s.parse().ok()).unwrap_or(0);
    std::thread::sleep(std::time::Duration::from_millis(ms));
    args.get(1).and_then(|s| s.parse().ok()).unwrap_or(0)
}

/// logline FILE TEXT...  (atomic append of one line)
fn logline(args: &[String]) -> i32 {
    if args.is_empty() {
        return 2;
    }
    append_line(&args[0], &args[1..].join(" "));
    0
}

/// slog MS FILE TEXT... [--status S]: sleep, then atomically append one line (a whole background job as ONE external command)
fn slog(args: &[String]) -> i32 {
    let ms: u64 = args.first().and_then(|s| s.parse().ok()).unwrap_or(0);
    std::thread::sleep(std::time::Duration::from_millis(ms));
    if args.len() >= 3 {
        append_line(&args[1], &args[2..].join(" "));
    }
    0
}

fn main() {
    let mut raw: Vec<std::ffi::OsString> = std::env::args_os().collect();
    let name0 = std::path::Path::new(&raw[0])
        .file_name()
        .map(|s| s.to_string_lossy().to_string())
        .unwrap_or_default();
    let tool = if name0 == "vtool" {
        if raw.len() < 2 {
            eprintln!("usage: vtool <tool> ...");
            std::process::exit(2);
        }
        let t = raw[1].to_string_lossy().to_string();
        raw.remove(1);
        t
    } else {
        name0
    };
    let osargs: Vec<std::ffi::OsString> = raw[1..].to_vec();
    let sargs: Vec<String> = osargs.iter().map(|s| s.to_string_lossy().to_string()).collect();
    let code = match tool.as_str() {
        "argdump" => argdump(&osargs),
        "gen" => gen_cmd(&sargs),
        "sink" => sink(&sargs),
        "filt" => filt(&sargs),
        "envdump" => envdump(&sargs),
        "fdprobe" => fdprobe(&sargs),
        "fdcount" => fdcount(&sargs),
        "msleep" => msleep(&sargs),
        "logline" => logline(&sargs),
        "wr" => wr(&sargs),
        "slog" => slog(&sargs),
        "dumpf" => dumpf(&sargs),
        other => {
            eprintln!("vtool: unknown tool {other}");
            2
        }
    };
    std::process::exit(code);
}
