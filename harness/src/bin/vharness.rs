fn main() {
    println!("vharness stub");
}
