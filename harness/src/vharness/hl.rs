//! C19 monitor: span algebra of `highlight_command` on every (line, cursor).

use std::collections::{BTreeMap, HashSet};
use std::panic::{catch_unwind, AssertUnwindSafe};
use std::sync::atomic::{AtomicU64, Ordering};
use std::sync::{Arc, Mutex};

use brush_interactive::highlighting::highlight_command;

use crate::{geti, hexdec, new_runtime, new_shell, nthreads, panic_msg, Sh, Watch};

pub const ALPHABET: [&str; 21] = [
    "a", " ", "\n", ";", "|", "&", "<", ">", "(", ")", "{", "}", "$", "\"", "'", "`", "\\", "#", "=",
    "é", "🚀",
];

/// Checks all invariants; returns Err(description) on the first broken one. Ok carries (span count, shape hash).
pub fn check(shell: &Sh, line: &str, cursor: usize) -> Result<(usize, u64), String> {
    let r = catch_unwind(AssertUnwindSafe(|| {
        let h = highlight_command(shell, line, cursor);
        let mut next = 0usize;
        let mut shape: u64 = 0xcbf29ce484222325;
        let mut rendered = String::with_capacity(line.len());
        for span in h.spans() {
            if span.range.start > span.range.end {
                return Err(format!("span start>end {:?}", span.range));
            }
            if span.range.end > line.len() {
                return Err(format!("span end beyond line {:?} len={}", span.range, line.len()));
            }
            if !line.is_char_boundary(span.range.start) || !line.is_char_boundary(span.range.end) {
                return Err(format!("span off char boundary {:?}", span.range));
            }
            if span.range.start != next {
                return Err(format!(
                    "gap/overlap: span starts at {} expected {}",
                    span.range.start, next
                ));
            }
            next = span.range.end;
            rendered.push_str(h.text(span));
            shape = (shape ^ (format!("{:?}", span.kind).len() as u64 * 31 + span.range.len() as u64))
                .wrapping_mul(0x100000001b3);
            shape = (shape ^ fxhash(&format!("{:?}", span.kind))).wrapping_mul(0x100000001b3);
        }
        if next != line.len() {
            return Err(format!("spans cover {next} of {} bytes", line.len()));
        }
        if rendered != line {
            return Err("rendering the spans does not reproduce the line".to_string());
        }
        Ok((h.spans().len(), shape))
    }));
    match r {
        Ok(x) => x,
        Err(e) => Err(format!("panic: {}", panic_msg(e))),
    }
}

fn fxhash(s: &str) -> u64 {
    let mut h: u64 = 0;
    for b in s.bytes() {
        h = (h.rotate_left(5) ^ u64::from(b)).wrapping_mul(0x517cc1b727220a95);
    }
    h
}

fn nth_line(mut idx: u64, len: usize) -> String {
    let mut s = String::new();
    for _ in 0..len {
        s.push_str(ALPHABET[(idx % 21) as usize]);
        idx /= 21;
    }
    s
}

struct Acc {
    calls: u64,
    lines: u64,
    multi_span_lines: u64,
    shapes: HashSet<u64>,
    violations: Vec<serde_json::Value>,
    samples: Vec<serde_json::Value>,
}

fn run_lines(
    shell: &Sh,
    slot: usize,
    watch: &Watch,
    it: &mut dyn Iterator<Item = String>,
    acc: &mut Acc,
) {
    for line in it {
        acc.lines += 1;
        let mut multi = false;
        let mut cursors: Vec<usize> = line.char_indices().map(|(i, _)| i).collect();
        cursors.push(line.len());
        for c in cursors {
            watch.set(slot, &format!("{:?} cursor {}", line, c));
            acc.calls += 1;
            match check(shell, &line, c) {
                Ok((n, shape)) => {
                    if n >= 2 {
                        multi = true;
                    }
                    if acc.shapes.len() < 2_000_000 {
                        acc.shapes.insert(shape);
                    }
                }
                Err(what) => {
                    if acc.violations.len() < 20 {
                        acc.violations.push(serde_json::json!({"line": line, "cursor": c, "what": what}));
                    }
                }
            }
        }
        if multi {
            acc.multi_span_lines += 1;
            if acc.samples.len() < 3 && acc.lines % 1009 == 0 {
                let h = highlight_command(shell, &line, line.len());
                let spans: Vec<String> = h
                    .spans()
                    .iter()
                    .map(|s| format!("{:?}@{}..{}", s.kind, s.range.start, s.range.end))
                    .collect();
                acc.samples.push(serde_json::json!({"line": line, "spans": spans}));
            }
        }
    }
}

fn finish(accs: Vec<Acc>, extra: serde_json::Value) -> serde_json::Value {
    let mut calls = 0;
    let mut lines = 0;
    let mut multi = 0;
    let mut shapes: HashSet<u64> = HashSet::new();
    let mut violations = vec![];
    let mut samples = vec![];
    for a in accs {
        calls += a.calls;
        lines += a.lines;
        multi += a.multi_span_lines;
        shapes.extend(a.shapes);
        violations.extend(a.violations);
        samples.extend(a.samples);
    }
    violations.truncate(20);
    samples.truncate(6);
    serde_json::json!({"calls": calls, "lines": lines, "multi_span_lines": multi,
        "distinct_span_shapes": shapes.len(), "violations": violations, "samples": samples, "extra": extra})
}

fn workers<F>(m: &BTreeMap<String, String>, make_iter: F) -> serde_json::Value
where
    F: Fn(usize, usize) -> Box<dyn Iterator<Item = String> + Send> + Sync,
{
    // command classification must not walk the file system: empty PATH
    std::env::set_var("PATH", "/nonexistent-verif-path");
    let rt = new_runtime();
    let template = rt.block_on(new_shell());
    let n = nthreads(m);
    let watch = Watch::new(n);
    watch.spawn_monitor(geti(m, "hang_s", 20));
    let results: Arc<Mutex<Vec<Acc>>> = Arc::new(Mutex::new(vec![]));
    let total = AtomicU64::new(0);
    std::thread::scope(|s| {
        for t in 0..n {
            let shell = template.clone();
            let watch = Arc::clone(&watch);
            let results = Arc::clone(&results);
            let mut it = make_iter(t, n);
            let total = &total;
            // same stack budget as the shell's main thread has
            let _ = std::thread::Builder::new().stack_size(64 << 20).spawn_scoped(s, move || {
                let mut acc = Acc {
                    calls: 0,
                    lines: 0,
                    multi_span_lines: 0,
                    shapes: HashSet::new(),
                    violations: vec![],
                    samples: vec![],
                };
                run_lines(&shell, t, &watch, &mut *it, &mut acc);
                watch.finish(t);
                total.fetch_add(acc.calls, Ordering::SeqCst);
                results.lock().expect("lock").push(acc);
            });
        }
    });
    watch.done.store(1, Ordering::SeqCst);
    let accs = std::mem::take(&mut *results.lock().expect("lock"));
    finish(accs, serde_json::json!({"threads": n}))
}

/// --maxlen N [--shard I --shards K]: all lines over the 21-symbol alphabet of length 0..=N.
pub fn exhaustive(m: &BTreeMap<String, String>) -> serde_json::Value {
    let maxlen = geti(m, "maxlen", 4) as usize;
    let shard = geti(m, "shard", 0);
    let shards = geti(m, "shards", 1).max(1);
    workers(m, move |t, n| {
        let mut items: Vec<(usize, u64, u64)> = vec![];
        for len in 0..=maxlen {
            let count = 21u64.pow(len as u32);
            items.push((len, 0, count));
        }
        let stride = n as u64 * shards;
        let offset = shard * n as u64 + t as u64;
        Box::new(items.into_iter().flat_map(move |(len, _, count)| {
            (0..count)
                .filter(move |i| i % stride == offset)
                .map(move |i| nth_line(i, len))
        }))
    })
}

/// --file PATH: one hex-encoded line per row; each line and each of its prefixes (char boundaries) is checked.
pub fn lines(m: &BTreeMap<String, String>) -> serde_json::Value {
    let path = m.get("file").cloned().unwrap_or_default();
    let prefixes = geti(m, "prefixes", 1) != 0;
    let content = std::fs::read_to_string(&path).unwrap_or_default();
    let all: Vec<String> = content.lines().map(hexdec).collect();
    let all = Arc::new(all);
    workers(m, move |t, n| {
        let all = Arc::clone(&all);
        let idx: Vec<usize> = (0..all.len()).filter(|i| i % n == t).collect();
        Box::new(idx.into_iter().flat_map(move |i| {
            let line = all[i].clone();
            let mut v = vec![line.clone()];
            if prefixes && line.len() <= 120 {
                for (p, _) in line.char_indices().skip(1) {
                    v.push(line[..p].to_string());
                }
            }
            v.into_iter()
        }))
    })
}
