//! In-process runtime monitors driving the real brush library crates.
//! Usage: vharness <subcommand> [--key value ...]; prints one JSON object on stdout.

use std::collections::{BTreeMap, HashSet};
use std::panic::{catch_unwind, AssertUnwindSafe};
use std::sync::atomic::{AtomicU64, Ordering};
use std::sync::{Arc, Mutex};

mod hist;
mod hl;
mod misc;

pub type Sh = brush_core::Shell<brush_core::extensions::DefaultShellExtensions>;

pub fn args_map() -> (String, BTreeMap<String, String>) {
    let a: Vec<String> = std::env::args().collect();
    let cmd = a.get(1).cloned().unwrap_or_default();
    let mut m = BTreeMap::new();
    let mut i = 2;
    while i < a.len() {
        if let Some(k) = a[i].strip_prefix("--") {
            let v = a.get(i + 1).cloned().unwrap_or_default();
            m.insert(k.to_string(), v);
            i += 2;
        } else {
            i += 1;
        }
    }
    (cmd, m)
}

pub fn geti(m: &BTreeMap<String, String>, k: &str, d: u64) -> u64 {
    m.get(k).and_then(|s| s.parse().ok()).unwrap_or(d)
}

pub fn new_runtime() -> tokio::runtime::Runtime {
    tokio::runtime::Builder::new_multi_thread()
        .worker_threads(2)
        .enable_all()
        .build()
        .expect("runtime")
}

pub async fn new_shell() -> Sh {
    brush_core::Shell::builder()
        .profile(brush_core::ProfileLoadBehavior::Skip)
        .rc(brush_core::RcLoadBehavior::Skip)
        .builtins(brush_builtins::default_builtins(brush_builtins::BuiltinSet::BashMode))
        .build()
        .await
        .expect("shell")
}

pub fn hexdec(s: &str) -> String {
    let b: Vec<u8> = (0..s.len() / 2)
        .filter_map(|i| u8::from_str_radix(&s[2 * i..2 * i + 2], 16).ok())
        .collect();
    String::from_utf8_lossy(&b).to_string()
}

pub fn panic_msg(e: Box<dyn std::any::Any + Send>) -> String {
    if let Some(s) = e.downcast_ref::<String>() {
        s.clone()
    } else if let Some(s) = e.downcast_ref::<&str>() {
        (*s).to_string()
    } else {
        "panic".to_string()
    }
}

/// Shared progress/hang watchdog: workers publish the case they are on; the monitor thread aborts the
/// process with a JSON "hang" record if one worker stays on the same case for `limit_s` seconds.
pub struct Watch {
    pub slots: Vec<Mutex<(u64, String)>>,
    pub done: AtomicU64,
}

impl Watch {
    pub fn new(n: usize) -> Arc<Self> {
        Arc::new(Self {
            slots: (0..n).map(|_| Mutex::new((0, String::new()))).collect(),
            done: AtomicU64::new(0),
        })
    }
    pub fn set(&self, slot: usize, case: &str) {
        if let Ok(mut g) = self.slots[slot].lock() {
            g.0 += 1;
            g.1.clear();
            g.1.push_str(case);
        }
    }
    /// Marks a worker as finished: a finished worker makes no progress and must not be mistaken for a hung one.
    pub fn finish(&self, slot: usize) {
        if let Ok(mut g) = self.slots[slot].lock() {
            g.0 = 0;
        }
    }
    pub fn spawn_monitor(self: &Arc<Self>, limit_s: u64) {
        let w = Arc::clone(self);
        std::thread::spawn(move || {
            let n = w.slots.len();
            let mut last: Vec<(u64, u64)> = vec![(0, 0); n];
            loop {
                std::thread::sleep(std::time::Duration::from_secs(1));
                if w.done.load(Ordering::SeqCst) != 0 {
                    return;
                }
                for i in 0..n {
                    let (ctr, case) = match w.slots[i].lock() {
                        Ok(g) => (g.0, g.1.clone()),
                        Err(_) => continue,
                    };
                    if ctr == last[i].0 && ctr != 0 {
                        last[i].1 += 1;
                        if last[i].1 >= limit_s {
                            println!(
                                "{}",
                                serde_json::json!({"hang": true, "case": case, "seconds": limit_s})
                            );
                            std::process::exit(3);
                        }
                    } else {
                        last[i] = (ctr, 0);
                    }
                }
            }
        });
    }
}

pub fn nthreads(m: &BTreeMap<String, String>) -> usize {
    let d = std::thread::available_parallelism().map(|n| n.get()).unwrap_or(4);
    geti(m, "threads", d as u64) as usize
}

fn main() {
    // keep panic output quiet: the monitors catch and report panics themselves
    std::panic::set_hook(Box::new(|_| {}));
    let (cmd, m) = args_map();
    let out = match cmd.as_str() {
        "highlight-exhaustive" => hl::exhaustive(&m),
        "highlight-lines" => hl::lines(&m),
        "history-exhaustive" => hist::exhaustive(&m),
        "history-random" => hist::random(&m),
        "parse-roundtrip" => misc::parse_roundtrip(&m),
        "needs-more" => misc::needs_more(&m),
        "arith" => misc::arith(&m),
        "cache-replay" => misc::cache_replay(&m),
        "crash-inproc" => misc::crash_inproc(&m),
        "pattern" => misc::pattern(&m),
        _ => serde_json::json!({"error": format!("unknown subcommand {cmd}")}),
    };
    println!("{out}");
    let _ = (HashSet::<u8>::new(), catch_unwind(AssertUnwindSafe(|| ())));
}
