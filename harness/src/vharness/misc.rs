//! Smaller in-process monitors: parse/print round trip (C14), completeness decision (C15b),
//! arithmetic fast path (C07), cache transparency (C15c), crash monitor (C01f), pattern matching (C08).

use std::collections::BTreeMap;
use std::panic::{catch_unwind, AssertUnwindSafe};
use std::sync::atomic::Ordering;
use std::sync::{Arc, Mutex};

use crate::{geti, hexdec, new_runtime, new_shell, nthreads, panic_msg, Sh, Watch};

fn read_hex_lines(m: &BTreeMap<String, String>) -> Vec<String> {
    let path = m.get("file").cloned().unwrap_or_default();
    std::fs::read_to_string(path)
        .unwrap_or_default()
        .lines()
        .map(hexdec)
        .collect()
}

/// Removes source-location members so that two parses of differently laid out text can be compared.
fn is_position(v: &serde_json::Value) -> bool {
    v.as_object()
        .is_some_and(|m| m.contains_key("line") && m.contains_key("column") && m.len() <= 3)
}

fn is_span(v: &serde_json::Value) -> bool {
    v.as_object().is_some_and(|m| {
        m.len() == 2 && m.get("start").is_some_and(is_position) && m.get("end").is_some_and(is_position)
    })
}

fn erase_locations(v: &mut serde_json::Value) {
    if is_span(v) || is_position(v) {
        *v = serde_json::Value::Null;
        return;
    }
    match v {
        serde_json::Value::Object(map) => {
            map.retain(|k, _| !(k == "loc" || k == "location" || k == "span" || k == "position" || k.ends_with("_loc")));
            for (_, x) in map.iter_mut() {
                erase_locations(x);
            }
        }
        serde_json::Value::Array(a) => {
            for x in a {
                erase_locations(x);
            }
        }
        _ => {}
    }
}

fn first_diff(a: &serde_json::Value, b: &serde_json::Value, path: String) -> String {
    match (a, b) {
        (serde_json::Value::Object(x), serde_json::Value::Object(y)) => {
            for (k, v) in x {
                match y.get(k) {
                    None => return format!("{path}/{k} (missing after re-parse: {v})"),
                    Some(w) if w != v => return first_diff(v, w, format!("{path}/{k}")),
                    _ => {}
                }
            }
            for k in y.keys() {
                if !x.contains_key(k) {
                    return format!("{path}/{k} (only after re-parse)");
                }
            }
            path
        }
        (serde_json::Value::Array(x), serde_json::Value::Array(y)) => {
            if x.len() != y.len() {
                return format!("{path} (length {} vs {})", x.len(), y.len());
            }
            for (i, (v, w)) in x.iter().zip(y.iter()).enumerate() {
                if v != w {
                    return first_diff(v, w, format!("{path}/{i}"));
                }
            }
            path
        }
        _ => format!("{path}: {a} vs {b}"),
    }
}

/// C14 (in-process path): print(parse(print(parse(src)))) == print(parse(src)), and the two parses are the same AST.
pub fn parse_roundtrip(m: &BTreeMap<String, String>) -> serde_json::Value {
    let rt = new_runtime();
    let shell = rt.block_on(new_shell());
    let progs = read_hex_lines(m);
    let mut accepted = 0u64;
    let mut rejected = 0u64;
    let mut violations = vec![];
    for (i, src) in progs.iter().enumerate() {
        let r = catch_unwind(AssertUnwindSafe(|| -> Result<bool, String> {
            let Ok(p1) = shell.parse_string(src.clone()) else {
                return Ok(false);
            };
            let t1 = p1.to_string();
            let p2 = shell
                .parse_string(t1.clone())
                .map_err(|e| format!("printed text does not parse: {e} -- printed: {t1:?}"))?;
            let t2 = p2.to_string();
            if t1 != t2 {
                return Err(format!("printing is not a fixed point: first={t1:?} second={t2:?}"));
            }
            let mut j1 = serde_json::to_value(&p1).map_err(|e| e.to_string())?;
            let mut j2 = serde_json::to_value(&p2).map_err(|e| e.to_string())?;
            erase_locations(&mut j1);
            erase_locations(&mut j2);
            if j1 != j2 {
                let at = first_diff(&j1, &j2, String::new());
                return Err(format!("re-parsed AST differs from the original AST at {at} (printed: {t1:?})"));
            }
            Ok(true)
        }));
        match r {
            Ok(Ok(true)) => accepted += 1,
            Ok(Ok(false)) => rejected += 1,
            Ok(Err(what)) => {
                if violations.len() < 30 {
                    violations.push(serde_json::json!({"index": i, "src": src, "what": what}));
                }
            }
            Err(e) => {
                if violations.len() < 30 {
                    violations.push(serde_json::json!({"index": i, "src": src, "what": format!("panic: {}", panic_msg(e))}));
                }
            }
        }
    }
    serde_json::json!({"programs": progs.len(), "accepted": accepted, "rejected": rejected, "violations": violations})
}

/// C15(b): the completeness decision for each given text. Output: array of 0/1 (1 = needs more input).
pub fn needs_more(m: &BTreeMap<String, String>) -> serde_json::Value {
    let rt = new_runtime();
    let shell = rt.block_on(new_shell());
    let texts = read_hex_lines(m);
    let mut out = Vec::with_capacity(texts.len());
    for t in &texts {
        let r = catch_unwind(AssertUnwindSafe(|| brush_interactive::verif_needs_more_input(&shell, t)));
        out.push(match r {
            Ok(true) => 1,
            Ok(false) => 0,
            Err(_) => 2,
        });
    }
    serde_json::json!({"decisions": out})
}

/// C07 fast path: each input line is `setup ;;; expr` where setup is a `name=value` list separated by spaces.
/// Output per line: {"v": value} or {"e": message}, plus the final values of the variables named in setup.
pub fn arith(m: &BTreeMap<String, String>) -> serde_json::Value {
    let rt = new_runtime();
    let template = rt.block_on(new_shell());
    let lines = read_hex_lines(m);
    let mut out = Vec::with_capacity(lines.len());
    for l in &lines {
        let (setup, expr) = l.split_once(";;;").unwrap_or(("", l));
        let r = catch_unwind(AssertUnwindSafe(|| {
            let mut shell = template.clone();
            let mut names = vec![];
            for kv in setup.split_whitespace() {
                if let Some((k, v)) = kv.split_once('=') {
                    let _ = shell.env_mut().set_global(k, brush_core::ShellVariable::new(v));
                    names.push(k.to_string());
                }
            }
            let parsed = brush_parser::arithmetic::parse(expr);
            let res = match parsed {
                Err(e) => Err(format!("parse: {e}")),
                Ok(ast) => shell.eval_arithmetic(&ast).map_err(|e| format!("eval: {e}")),
            };
            let vars: BTreeMap<String, String> = names
                .iter()
                .map(|n| (n.clone(), shell.env_str(n).map(|s| s.to_string()).unwrap_or_default()))
                .collect();
            (res, vars)
        }));
        out.push(match r {
            Ok((Ok(v), vars)) => serde_json::json!({"v": v, "vars": vars}),
            Ok((Err(e), vars)) => serde_json::json!({"e": e, "vars": vars}),
            Err(p) => serde_json::json!({"panic": panic_msg(p)}),
        });
    }
    serde_json::json!({"results": out})
}

fn opts(bits: u64) -> brush_parser::ParserOptions {
    brush_parser::ParserOptions {
        enable_extended_globbing: bits & 1 != 0,
        posix_mode: bits & 2 != 0,
        sh_mode: bits & 4 != 0,
        tilde_expansion_at_word_start: bits & 8 != 0,
        tilde_expansion_after_colon: false,
        parser_impl: brush_parser::ParserImpl::default(),
    }
}

fn digest<T: std::fmt::Debug>(x: &T) -> String {
    format!("{x:?}")
}

thread_local! {
    static PARSE_SHELL: std::cell::RefCell<Option<Sh>> = const { std::cell::RefCell::new(None) };
}

/// `Shell::parse_string` (the entry point behind -c, eval, stdin and $( ) bodies) under the shell options named by `bits`.
fn shell_parse(text: &str, bits: u64) -> String {
    PARSE_SHELL.with(|cell| {
        let mut slot = cell.borrow_mut();
        if slot.is_none() {
            let rt = new_runtime();
            *slot = Some(rt.block_on(new_shell()));
        }
        let shell = slot.as_mut().expect("shell");
        shell.options_mut().extended_globbing = bits & 1 != 0;
        shell.options_mut().posix_mode = bits & 2 != 0;
        shell.options_mut().sh_mode = bits & 4 != 0;
        let r = digest(&shell.parse_string(text.to_string()));
        let c = format!("{}", brush_interactive::verif_needs_more_input(shell, text));
        format!("{r}|needs_more={c}")
    })
}

/// Results of every memoised parsing entry point for (text, option bits), as comparable strings.
fn parse_all(text: &str, bits: u64) -> Vec<String> {
    let o = opts(bits);
    let mut v = vec![];
    v.push(shell_parse(text, bits & 7));
    v.push(digest(&brush_parser::tokenize_str_with_options(
        text,
        &brush_parser::TokenizerOptions {
            enable_extended_globbing: o.enable_extended_globbing,
            posix_mode: o.posix_mode,
            sh_mode: o.sh_mode,
        },
    )));
    v.push(digest(&brush_parser::word::parse(text, &o)));
    v.push(digest(&brush_parser::arithmetic::parse(text)));
    v.push(digest(&brush_parser::prompt::parse(text)));
    v.push(digest(&brush_parser::pattern::pattern_to_regex_str(text, o.enable_extended_globbing)));
    {
        let mut p = brush_parser::Parser::new(std::io::BufReader::new(text.as_bytes()), &o);
        v.push(digest(&p.parse_program()));
    }
    v
}

/// C15(c) cache transparency. mode=table: print the reference table (run in fresh processes, one text each or all —
/// the python side decides); mode=replay: replay --count random (text, bits) calls in this long-lived process and compare
/// each result with a table computed *up front in this same process before any replay*? No: with the table passed in
/// --table (JSON file produced by fresh processes).
pub fn cache_replay(m: &BTreeMap<String, String>) -> serde_json::Value {
    let texts = read_hex_lines(m);
    let mode = m.get("mode").cloned().unwrap_or_else(|| "table".into());
    let bitsets: Vec<u64> = vec![0, 1, 2, 3, 4, 5, 8, 9, 13];
    if mode == "table" {
        // reference: only the texts [lo, hi) and one option set are evaluated in this (fresh) process
        let lo = geti(m, "lo", 0) as usize;
        let hi = (geti(m, "hi", texts.len() as u64) as usize).min(texts.len());
        let bits = geti(m, "bits", 0);
        let mut table = serde_json::Map::new();
        for (i, t) in texts.iter().enumerate().take(hi).skip(lo) {
            table.insert(format!("{i}:{bits}"), serde_json::json!(parse_all(t, bits)));
        }
        return serde_json::json!({"table": table});
    }
    // replay
    let table: serde_json::Value = m
        .get("table")
        .and_then(|p| std::fs::read_to_string(p).ok())
        .and_then(|s| serde_json::from_str(&s).ok())
        .unwrap_or(serde_json::json!({}));
    let count = geti(m, "count", 10000);
    let mut x = geti(m, "seed", 1).wrapping_mul(0x9E3779B97F4A7C15) | 1;
    let mut calls = 0u64;
    let mut compared = 0u64;
    let mut violations = vec![];
    let mut distinct = std::collections::HashSet::new();
    let mut prev: Option<(usize, u64)> = None;
    for _ in 0..count {
        x ^= x << 13;
        x ^= x >> 7;
        x ^= x << 17;
        // locality: repeat the previous text under another option set half of the time (the cache-key hazard)
        let (ti, bits) = match prev {
            Some((pt, _)) if (x >> 5) % 2 == 0 => (pt, bitsets[((x >> 9) % bitsets.len() as u64) as usize]),
            _ => (((x >> 17) % texts.len().max(1) as u64) as usize, bitsets[((x >> 9) % bitsets.len() as u64) as usize]),
        };
        prev = Some((ti, bits));
        let got = parse_all(&texts[ti], bits);
        calls += got.len() as u64;
        distinct.insert((ti, bits));
        if let Some(want) = table.get(format!("{ti}:{bits}")) {
            compared += 1;
            let want: Vec<String> = want
                .as_array()
                .map(|a| a.iter().map(|s| s.as_str().unwrap_or("").to_string()).collect())
                .unwrap_or_default();
            if want != got && violations.len() < 20 {
                let which = want.iter().zip(got.iter()).position(|(a, b)| a != b).unwrap_or(99);
                violations.push(serde_json::json!({"text": texts[ti], "bits": bits, "entry_point": which,
                    "fresh": want.get(which), "cached": got.get(which)}));
            }
        }
    }
    serde_json::json!({"calls": calls, "compared": compared, "distinct_pairs": distinct.len(), "violations": violations})
}

/// C01(f): every library entry point on every given line (and cursor), under catch_unwind with a hang watchdog.
pub fn crash_inproc(m: &BTreeMap<String, String>) -> serde_json::Value {
    std::env::set_var("PATH", "/nonexistent-verif-path");
    let lines = Arc::new(read_hex_lines(m));
    let n = nthreads(m);
    let watch = Watch::new(n);
    watch.spawn_monitor(geti(m, "hang_s", 20));
    let viol: Arc<Mutex<Vec<serde_json::Value>>> = Arc::new(Mutex::new(vec![]));
    let calls = std::sync::atomic::AtomicU64::new(0);
    let do_complete = geti(m, "complete", 1) != 0;
    // --only a,b,c: restrict to these entry points (used for unterminated nesting ladders, which are not valid input for
    // the word / arithmetic / pattern parsers called directly - the tokenizer never hands them such text)
    let only: Option<std::collections::HashSet<String>> =
        m.get("only").map(|s| s.split(',').map(|x| x.trim().to_string()).collect());
    let only = &only;
    std::thread::scope(|s| {
        for t in 0..n {
            let lines = Arc::clone(&lines);
            let watch = Arc::clone(&watch);
            let viol = Arc::clone(&viol);
            let calls = &calls;
            // same stack budget as the shell's main thread has
            let _ = std::thread::Builder::new().stack_size(64 << 20).spawn_scoped(s, move || {
                let rt = new_runtime();
                let template: Sh = rt.block_on(new_shell());
                for (i, line) in lines.iter().enumerate() {
                    if i % n != t {
                        continue;
                    }
                    let report = |ep: &str, cursor: usize, what: String| {
                        let mut v = viol.lock().expect("lock");
                        if v.len() < 40 {
                            v.push(serde_json::json!({"entry_point": ep, "line": line, "cursor": cursor, "what": what}));
                        }
                    };
                    macro_rules! guard {
                        ($ep:expr, $cur:expr, $body:expr) => {{
                            if only.as_ref().map_or(true, |o| o.contains($ep)) {
                                watch.set(t, &format!("{} {:?} cursor {}", $ep, line, $cur));
                                calls.fetch_add(1, Ordering::Relaxed);
                                if let Err(e) = catch_unwind(AssertUnwindSafe(|| $body)) {
                                    report($ep, $cur, format!("panic: {}", panic_msg(e)));
                                }
                            }
                        }};
                    }
                    guard!("tokenize", 0, { let _ = brush_parser::tokenize_str(line); });
                    guard!("parse_program", 0, { let _ = template.parse_string(line.clone()); });
                    guard!("word_parse", 0, { let _ = brush_parser::word::parse(line, &opts(1)); });
                    guard!("arith_parse", 0, { let _ = brush_parser::arithmetic::parse(line); });
                    guard!("pattern", 0, { let _ = brush_parser::pattern::pattern_to_regex_str(line, true); });
                    guard!("prompt_parse", 0, { let _ = brush_parser::prompt::parse(line); });
                    guard!("needs_more", 0, { let _ = brush_interactive::verif_needs_more_input(&template, line); });
                    // a prompt that expands itself (`${PS1@P}` inside PS1) recurses without bound - in bash as well (SIGSEGV)
                    if !line.contains("@P") {
                    guard!("prompt_expand", 0, {
                        let mut sh = template.clone();
                        let _ = sh.env_mut().set_global("PS1", brush_core::ShellVariable::new(line.as_str()));
                        let _ = rt.block_on(sh.compose_prompt());
                    });
                    }
                    guard!("arith_eval", 0, {
                        if let Ok(ast) = brush_parser::arithmetic::parse(line) {
                            let mut sh = template.clone();
                            let _ = sh.eval_arithmetic(&ast);
                        }
                    });
                    let mut cursors: Vec<usize> = line.char_indices().map(|(i, _)| i).collect();
                    cursors.push(line.len());
                    if cursors.len() > 64 {
                        let step = cursors.len() / 64 + 1;
                        cursors = cursors.into_iter().step_by(step).collect();
                    }
                    for c in cursors {
                        guard!("highlight", c, {
                            if let Err(w) = crate::hl::check(&template, line, c) {
                                // span-algebra failures are C19's business; only crashes are reported here
                                if w.starts_with("panic") {
                                    std::panic::resume_unwind(Box::new(w));
                                }
                            }
                        });
                        if do_complete {
                            guard!("complete", c, {
                                let mut sh = template.clone();
                                let _ = rt.block_on(sh.complete(line, c));
                            });
                        }
                    }
                }
                watch.finish(t);
            });
        }
    });
    watch.done.store(1, Ordering::SeqCst);
    let v = viol.lock().expect("lock").clone();
    serde_json::json!({"lines": lines.len(), "calls": calls.load(Ordering::SeqCst), "violations": v})
}

/// C08 in-process layer: input lines are `flags<TAB>pattern<TAB>string` (flags: e = extglob, i = nocase);
/// output: one char per line: 1 match, 0 no match, E error, P panic.
pub fn pattern(m: &BTreeMap<String, String>) -> serde_json::Value {
    let lines = read_hex_lines(m);
    let mut out = String::with_capacity(lines.len());
    for l in &lines {
        let mut parts = l.splitn(3, '\t');
        let flags = parts.next().unwrap_or("");
        let pat = parts.next().unwrap_or("");
        let s = parts.next().unwrap_or("");
        let r = catch_unwind(AssertUnwindSafe(|| {
            brush_core::patterns::Pattern::from(pat)
                .set_extended_globbing(flags.contains('e'))
                .set_case_insensitive(flags.contains('i'))
                .exactly_matches(s)
        }));
        out.push(match r {
            Ok(Ok(true)) => '1',
            Ok(Ok(false)) => '0',
            Ok(Err(_)) => 'E',
            Err(_) => 'P',
        });
    }
    serde_json::json!({"results": out})
}
