//! C20 monitor: every operation sequence over the history API is replayed against an executable model of
//! the history file; after *every* step the real file and the real session list must equal the model's.

use std::collections::BTreeMap;
use std::panic::{catch_unwind, AssertUnwindSafe};
use std::sync::atomic::{AtomicU64, Ordering};
use std::sync::{Arc, Mutex};

use crate::{geti, new_runtime, nthreads, panic_msg, Sh, Watch};

pub const OPS: [&str; 11] = [
    "add", "add_padded", "add_hash", "save", "new_session", "del_first", "del_last", "clear", "toggle_ts",
    // what `history -s 'cmd  '` does (no trimming: trailing blanks are part of the recorded text) and what `history -w` does
    // (the whole list replaces the file)
    "add_raw", "rewrite",
];
const NOPS: u64 = 11;

/// Open finding C20-F1: a full rewrite leaves the entries marked unsaved, so an incremental save later in the same session
/// appends them a second time (bash's `history -w; history -a` does the same). Sequences with a `save` after a `rewrite`
/// in one session are therefore not generated.
fn in_known_region(seq: &[u8]) -> bool {
    let mut rewritten = false;
    for op in seq {
        match OPS[*op as usize] {
            "rewrite" => rewritten = true,
            "new_session" => rewritten = false,
            "save" if rewritten => return true,
            _ => {}
        }
    }
    false
}

async fn build_shell(histfile: &str, ts_on: bool) -> Sh {
    let mut b = brush_core::Shell::builder()
        .profile(brush_core::ProfileLoadBehavior::Skip)
        .rc(brush_core::RcLoadBehavior::Skip)
        .enable_option("history")
        .var("HISTFILE", brush_core::ShellVariable::new(histfile));
    if ts_on {
        b = b.var("HISTTIMEFORMAT", brush_core::ShellVariable::new("%s "));
    }
    b.build().await.expect("shell")
}

#[derive(Clone)]
struct MItem {
    cmd: String,
    has_ts: bool,
    dirty: bool,
}

struct Model {
    session: Vec<MItem>,
    file: Vec<String>, // "#TS" for timestamp lines
    ts_on: bool,
    counter: u32,
}

fn norm_file(content: &str) -> Vec<String> {
    content
        .lines()
        .map(|l| {
            if let Some(rest) = l.strip_prefix('#') {
                if !rest.is_empty() && rest.chars().all(|c| c.is_ascii_digit()) {
                    return "#TS".to_string();
                }
            }
            l.to_string()
        })
        .collect()
}

fn model_reload(file: &[String]) -> Vec<MItem> {
    let mut out = vec![];
    let mut pending = false;
    for l in file {
        if let Some(rest) = l.strip_prefix('#') {
            pending = rest == "TS";
            continue;
        }
        out.push(MItem { cmd: l.clone(), has_ts: pending, dirty: false });
        pending = false;
    }
    out
}

/// Property-level invariants over the file, independent of the model's bookkeeping.
fn file_invariants(file: &[String]) -> Option<String> {
    let mut seen = std::collections::HashSet::new();
    let mut last_id: i64 = -1;
    for (i, l) in file.iter().enumerate() {
        if l == "#TS" {
            match file.get(i + 1) {
                None => return Some("timestamp line dangling at end of file".into()),
                Some(n) if n == "#TS" => return Some("timestamp line followed by another timestamp line".into()),
                _ => {}
            }
            continue;
        }
        if l.starts_with('#') {
            continue;
        }
        if !seen.insert(l.clone()) {
            return Some(format!("command {l:?} appears more than once in the file"));
        }
        if let Some(id) = l.rsplit('k').next().and_then(|s| s.parse::<i64>().ok()) {
            if id <= last_id {
                return Some(format!("command {l:?} out of recording order"));
            }
            last_id = id;
        }
    }
    None
}

/// Runs one operation sequence; Err(description) on the first mismatch.
fn run_seq(rt: &tokio::runtime::Runtime, dir: &str, seq: &[u8]) -> Result<(u32, u32), String> {
    let histfile = format!("{dir}/hist");
    let _ = std::fs::remove_file(&histfile);
    let mut model = Model { session: vec![], file: vec![], ts_on: false, counter: 0 };
    let mut shell = rt.block_on(build_shell(&histfile, false));
    let mut saves_with_data = 0u32;
    let mut reloads_with_data = 0u32;
    for (step, op) in seq.iter().enumerate() {
        let name = OPS[*op as usize];
        match name {
            "add" | "add_padded" | "add_hash" => {
                model.counter += 1;
                let raw = match name {
                    "add" => format!("echo k{}", model.counter),
                    "add_padded" => format!("  echo  k{} \t", model.counter),
                    _ => format!("#note k{}", model.counter),
                };
                shell.add_to_history(&raw).map_err(|e| format!("add failed: {e}"))?;
                let t = raw.trim().to_string();
                if !t.is_empty() {
                    model.session.push(MItem { cmd: t, has_ts: true, dirty: true });
                }
            }
            "add_raw" => {
                model.counter += 1;
                let raw = format!("echo r{} k{}  \t", model.counter, model.counter);
                if let Some(h) = shell.history_mut() {
                    h.add(brush_core::history::Item::new(raw.clone())).map_err(|e| format!("add failed: {e}"))?;
                }
                model.session.push(MItem { cmd: raw, has_ts: true, dirty: true });
            }
            "rewrite" => {
                let ts = model.ts_on;
                if let Some(h) = shell.history_mut() {
                    h.flush(&histfile, false, false, ts).map_err(|e| format!("rewrite failed: {e}"))?;
                }
                model.file.clear();
                for it in &model.session {
                    if model.ts_on && it.has_ts {
                        model.file.push("#TS".into());
                    }
                    model.file.push(it.cmd.clone());
                }
                if !model.session.is_empty() {
                    saves_with_data += 1;
                }
            }
            "save" => {
                shell.save_history().map_err(|e| format!("save failed: {e}"))?;
                let mut wrote = false;
                for it in &mut model.session {
                    if it.dirty {
                        if model.ts_on && it.has_ts {
                            model.file.push("#TS".into());
                        }
                        model.file.push(it.cmd.clone());
                        it.dirty = false;
                        wrote = true;
                    }
                }
                if wrote {
                    saves_with_data += 1;
                }
            }
            "new_session" => {
                shell = rt.block_on(build_shell(&histfile, model.ts_on));
                model.session = model_reload(&model.file);
                if !model.session.is_empty() {
                    reloads_with_data += 1;
                }
            }
            "del_first" => {
                if let Some(h) = shell.history_mut() {
                    h.remove_nth_item(0);
                }
                if !model.session.is_empty() {
                    model.session.remove(0);
                }
            }
            "del_last" => {
                if let Some(h) = shell.history_mut() {
                    let n = h.count();
                    if n > 0 {
                        h.remove_nth_item(n - 1);
                    }
                }
                model.session.pop();
            }
            "clear" => {
                if let Some(h) = shell.history_mut() {
                    h.clear().map_err(|e| format!("clear failed: {e}"))?;
                }
                model.session.clear();
            }
            "toggle_ts" => {
                model.ts_on = !model.ts_on;
                if model.ts_on {
                    shell
                        .env_mut()
                        .set_global("HISTTIMEFORMAT", brush_core::ShellVariable::new("%s "))
                        .map_err(|e| format!("set failed: {e}"))?;
                } else {
                    let _ = shell.env_mut().unset("HISTTIMEFORMAT");
                }
            }
            _ => {}
        }
        // compare after every step
        let content = std::fs::read_to_string(&histfile).unwrap_or_default();
        let actual_file = norm_file(&content);
        if actual_file != model.file {
            return Err(format!(
                "step {step} ({name}): file differs from model: actual={actual_file:?} model={:?}",
                model.file
            ));
        }
        if let Some(why) = file_invariants(&actual_file) {
            return Err(format!("step {step} ({name}): {why}"));
        }
        let actual_session: Vec<String> = shell
            .history()
            .map(|h| h.iter().map(|i| i.command_line.clone()).collect())
            .unwrap_or_default();
        let model_session: Vec<String> = model.session.iter().map(|i| i.cmd.clone()).collect();
        if actual_session != model_session {
            return Err(format!(
                "step {step} ({name}): session list differs: actual={actual_session:?} model={model_session:?}"
            ));
        }
        // reload through the public import path must yield the file's sequence
        if name == "save" || name == "new_session" || name == "rewrite" {
            let imported = brush_core::history::History::import(content.as_bytes())
                .map_err(|e| format!("import failed: {e}"))?;
            let got: Vec<String> = imported.iter().map(|i| i.command_line.clone()).collect();
            let want: Vec<String> = model_reload(&model.file).into_iter().map(|i| i.cmd).collect();
            if got != want {
                return Err(format!("step {step} ({name}): reload differs: got={got:?} want={want:?}"));
            }
            let ts_got: Vec<bool> = imported.iter().map(|i| i.timestamp.is_some()).collect();
            let ts_want: Vec<bool> = model_reload(&model.file).into_iter().map(|i| i.has_ts).collect();
            if ts_got != ts_want {
                return Err(format!(
                    "step {step} ({name}): timestamp attachment differs after reload: got={ts_got:?} want={ts_want:?}"
                ));
            }
        }
    }
    Ok((saves_with_data, reloads_with_data))
}

fn decode(mut idx: u64, len: usize) -> Vec<u8> {
    let mut v = Vec::with_capacity(len);
    for _ in 0..len {
        v.push((idx % NOPS) as u8);
        idx /= NOPS;
    }
    v
}

fn drive(m: &BTreeMap<String, String>, make: impl Fn(usize, usize) -> Box<dyn Iterator<Item = Vec<u8>> + Send> + Sync)
    -> serde_json::Value {
    let dir = m.get("dir").cloned().unwrap_or_else(|| "/tmp".into());
    let n = nthreads(m);
    let watch = Watch::new(n);
    watch.spawn_monitor(geti(m, "hang_s", 30));
    let seqs = AtomicU64::new(0);
    let steps = AtomicU64::new(0);
    let nontrivial = AtomicU64::new(0);
    let viol: Arc<Mutex<Vec<serde_json::Value>>> = Arc::new(Mutex::new(vec![]));
    let samples: Arc<Mutex<Vec<serde_json::Value>>> = Arc::new(Mutex::new(vec![]));
    std::thread::scope(|s| {
        for t in 0..n {
            let it = make(t, n);
            let dir = format!("{dir}/h{t}");
            let _ = std::fs::create_dir_all(&dir);
            let watch = Arc::clone(&watch);
            let viol = Arc::clone(&viol);
            let samples = Arc::clone(&samples);
            let (seqs, steps, nontrivial) = (&seqs, &steps, &nontrivial);
            // same stack budget as the shell's main thread has
            let _ = std::thread::Builder::new().stack_size(64 << 20).spawn_scoped(s, move || {
                let rt = new_runtime();
                for seq in it {
                    let names: Vec<&str> = seq.iter().map(|o| OPS[*o as usize]).collect();
                    watch.set(t, &format!("{names:?}"));
                    let r = catch_unwind(AssertUnwindSafe(|| run_seq(&rt, &dir, &seq)));
                    seqs.fetch_add(1, Ordering::Relaxed);
                    steps.fetch_add(seq.len() as u64, Ordering::Relaxed);
                    match r {
                        Ok(Ok((sv, rl))) => {
                            if sv > 0 && (rl > 0 || sv > 1) {
                                nontrivial.fetch_add(1, Ordering::Relaxed);
                                let mut sm = samples.lock().expect("lock");
                                if sm.len() < 4 && seq.len() >= 4 {
                                    sm.push(serde_json::json!({"ops": names}));
                                }
                            }
                        }
                        Ok(Err(why)) => {
                            let mut v = viol.lock().expect("lock");
                            if v.len() < 20 {
                                v.push(serde_json::json!({"ops": names, "seq": seq, "what": why}));
                            }
                        }
                        Err(e) => {
                            let mut v = viol.lock().expect("lock");
                            if v.len() < 20 {
                                v.push(serde_json::json!({"ops": names, "seq": seq, "what": format!("panic: {}", panic_msg(e))}));
                            }
                        }
                    }
                }
                watch.finish(t);
            });
        }
    });
    watch.done.store(1, Ordering::SeqCst);
    let v = viol.lock().expect("lock").clone();
    let sm = samples.lock().expect("lock").clone();
    serde_json::json!({"sequences": seqs.load(Ordering::SeqCst), "steps": steps.load(Ordering::SeqCst),
        "nontrivial": nontrivial.load(Ordering::SeqCst), "violations": v, "samples": sm})
}

/// --maxlen N --dir D [--shard I --shards K]
pub fn exhaustive(m: &BTreeMap<String, String>) -> serde_json::Value {
    let maxlen = geti(m, "maxlen", 4) as usize;
    let shard = geti(m, "shard", 0);
    let shards = geti(m, "shards", 1).max(1);
    drive(m, move |t, n| {
        let stride = n as u64 * shards;
        let offset = shard * n as u64 + t as u64;
        Box::new((1..=maxlen).flat_map(move |len| {
            let count = NOPS.pow(len as u32);
            (0..count).filter(move |i| i % stride == offset).map(move |i| decode(i, len)).filter(|s| !in_known_region(s))
        }))
    })
}

/// --count N --seed S --len L --dir D
pub fn random(m: &BTreeMap<String, String>) -> serde_json::Value {
    let count = geti(m, "count", 1000);
    let seed = geti(m, "seed", 0);
    let len = geti(m, "len", 12) as usize;
    let replay = m.get("seq").cloned();
    drive(m, move |t, n| {
        if let Some(r) = &replay {
            let seq: Vec<u8> = r.split(',').filter_map(|x| x.parse().ok()).collect();
            return if t == 0 { Box::new(std::iter::once(seq)) } else { Box::new(std::iter::empty()) };
        }
        let mut x = seed.wrapping_mul(0x9E3779B97F4A7C15) ^ (t as u64 + 1).wrapping_mul(0xD1B54A32D192ED03);
        let per = count / n as u64 + 1;
        Box::new((0..per).map(move |_| {
            let mut v = vec![];
            let l = 6 + (x % (len as u64 - 5)) as usize;
            for _ in 0..l {
                x ^= x << 13;
                x ^= x >> 7;
                x ^= x << 17;
                // bias towards add/save/new_session so that files actually fill up
                let r = (x >> 11) % 17;
                v.push(match r {
                    0..=2 => 0,
                    3 => 1,
                    4 => 2,
                    5..=7 => 3,
                    8 | 9 => 4,
                    10 => 5,
                    11 => 6,
                    12 => 7,
                    13 => 8,
                    14 | 15 => 9,
                    _ => 10,
                } as u8);
            }
            v
        }).filter(|s| !in_known_region(s)))
    })
}
