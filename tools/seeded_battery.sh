#!/bin/bash
# Developer tool: run every seeded change against its property's quick check; one line per change.
cd /verif
for d in seeded/*/; do
  id=$(basename $d); prop=${id%%-*}
  if ! git -C /repo diff --quiet; then echo "$id repo-dirty"; exit 2; fi
  if ! git -C /repo apply --check /verif/$d/patch.diff 2>/dev/null; then echo "$id PATCH-DOES-NOT-APPLY"; continue; fi
  git -C /repo apply /verif/$d/patch.diff
  out=$(VERIF_SEED=${VERIF_SEED:-0} ./check $prop --tier quick 2>&1); rc=$?
  git -C /repo checkout -- .
  echo "$id exit=$rc $(echo "$out" | grep -c '^VIOLATION') violations; $(echo "$out" | grep -A1 '^VIOLATION' | grep signature | head -1)"
done
./setup.sh >/dev/null 2>&1
