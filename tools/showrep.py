#!/usr/bin/env python3
import json,sys,glob
for f in sys.argv[1:]:
    for p in sorted(glob.glob(f)):
        r=json.load(open(p))
        print('=====',p.split('/')[-1], r.get('signature'))
        s=r.get('script','')
        pre='e() { echo "@m $1"; return $2; }\n'
        if s.startswith(pre): s=s[len(pre):]
        print(s.rstrip()); print('-- diff:', r.get('first_diff')); print('-- brush:', r.get('brush')); print('-- bash: ', r.get('bash'))
        if r.get('brush_stderr'): print('-- stderr:', r['brush_stderr'][:400])
