#!/usr/bin/env python3
"""Developer tool: print a markdown table of what the latest runs recorded in evidence/*.json (for DESIGN.md section 10.2)."""
import glob, json, os
V = os.path.dirname(os.path.dirname(os.path.abspath(__file__)))
print("| id | tier | seed | evaluations | distinct non-trivial | wall s | selected observation counters |")
print("|---|---|---|---|---|---|---|")
for f in sorted(glob.glob(os.path.join(V, "evidence", "*.json"))):
    e = json.load(open(f)); c = e["coverage"]; cnt = c.get("counters", {})
    keep = {k: v for k, v in cnt.items() if not k.startswith(("construct:", "ctx:", "path:", "carrier:", "opts:", "mode:", "cfg:", "skipped_region", "known:")) }
    top = sorted(keep.items(), key=lambda kv: -kv[1] if isinstance(kv[1], (int, float)) else 0)[:6]
    print("| %s | %s | %s | %s | %s | %s | %s |" % (e["property_id"], e["tier"], e.get("seed"), c["evaluations"], c["distinct_nontrivial"], e.get("wall_s"),
                                             ", ".join("%s=%s" % kv for kv in top)))
