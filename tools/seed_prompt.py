import json,sys
pid=sys.argv[1]; wt=sys.argv[2]
props={json.loads(l)['id']:json.loads(l) for l in open('/verif/properties.jsonl')}
p=props[pid]
print(f"""You are helping test a verification framework by producing realistic *property-breaking* code changes ("seeded defects") for the Rust project reubeno/brush (a bash-compatible shell). You have your own scratch git worktree of the project at {wt} . Work ONLY inside {wt} (and /tmp/{pid}-work for scratch files). Do NOT read or touch /verif or /repo (other than through your worktree), and do not look at other /tmp/wt-* directories.

The property to break (this is all you are given; find the relevant code yourself by reading the source in your worktree):

  Title: {p['title']}
  Statement: {p['statement']}
  Scope of "for every": {p['quantifier']['text']}

Your task: produce TWO independent source changes (each a separate patch against the worktree's HEAD, touching different mechanisms/sites) to the brush crates such that, for each change on its own:
  1. the workspace still compiles (`cargo build --offline -p brush-shell` in the worktree),
  2. the existing test suite still passes exactly as before the change. The suite command (run from the worktree root; takes a few minutes for the first build) is:
       cargo nextest run --workspace --no-fail-fast --tool-config-file pb:/w/lib/nextest.toml --profile pb --test-threads 6 --offline
     Note: 21 tests fail at baseline even without any change (e.g. Prompt::*, Quotes::*, some echo -e ones). Run the suite once on the unmodified worktree FIRST and save the list of failing tests; a change is acceptable only if the set of failing tests is identical with the change applied.
  3. the property above is violated by the changed code, and you demonstrate it with a small demonstration (a shell script run through the built `target/debug/brush --norc --noprofile --no-config` binary and compared with /usr/bin/bash or with an expected output, or a small Rust test) that FAILS with the change and PASSES without it.

Important: make the changes *subtle*. We want realistic regressions a maintainer could plausibly introduce (an off-by-one, a dropped condition, a wrong operator, a missing restore/cleanup on one path, a cache key that forgets an input, swapped arguments, etc.) that need something specific to manifest — an unusual input, a particular nesting, a multi-step sequence of operations, a particular interleaving or error path, or two cooperating sites that each look fine alone — NOT changes that any ordinary use of the shell would expose immediately (e.g. not "break all if statements"). The change must not add panics/crashes (unless the property is about crashes) and must not be a trivially-detectable stub. Do not modify any tests. Keep each patch small (typically 1-15 changed lines).

Practical notes:
  - Use `export CARGO_TARGET_DIR={wt}/target` so all build output stays inside the worktree. No network is available: always pass --offline to cargo. 16 cores are shared with other jobs: use at most `-j 6` / `--test-threads 6`.
  - Reference shell: /usr/bin/bash (5.2). Run both shells with LC_ALL=C.utf8.
  - After confirming a change, save it and revert the worktree (`git -C {wt} checkout -- .`) before starting the next one.

Deliverables — write them to {wt}/_seeded/ (create it):
  {wt}/_seeded/1/patch.diff      (output of `git diff` for change 1, applies with `git apply` at the worktree HEAD)
  {wt}/_seeded/1/demo.sh         (self-contained demonstration; takes the path of a brush binary as $1; exits 0 when the property holds (unchanged code), non-zero when violated (changed code); prints what differs)
  {wt}/_seeded/1/meta.json       ({{"property": "{pid}", "summary": "...what was changed and why it breaks the property...", "needs": "...what specific input/sequence/interleaving is needed to manifest...", "files": [...], "ran": ["...commands you ran to confirm compile, test-suite equality and the demo with and without the change..."], "suite_failures_identical": true}})
  and the same under {wt}/_seeded/2/ .
When finished, reply with a short summary: for each change, the one-line description, what it needs to manifest, and confirmation of the three checks above (state honestly if any could not be confirmed). Leave the worktree reverted to HEAD (only _seeded/ and target/ extra).""")
