#!/usr/bin/env python3
"""Developer tool (never run by a check): record an open known finding with its canary.
usage: add_finding.py ID PROPERTY TITLE [--region TEXT] [--mode file|c|stdin] [--no-prelude] < script
Runs the canary under brush and bash, stores brush's *current* (defective) observation as defect_obs.
"""
import argparse, json, os, sys
sys.path.insert(0, os.path.join(os.path.dirname(os.path.abspath(__file__)), ".."))
from vlib import core, diffrun, gen_prog

ap = argparse.ArgumentParser()
ap.add_argument("id"); ap.add_argument("property"); ap.add_argument("title")
ap.add_argument("--region", default=""); ap.add_argument("--mode", default="file")
ap.add_argument("--no-prelude", action="store_true"); ap.add_argument("--status", default="open")
ap.add_argument("--commit", default=None); ap.add_argument("--prelude3", action="store_true")
a = ap.parse_args()
script = sys.stdin.read()
full = script if a.no_prelude else (gen_prog.PRELUDE3 if a.prelude3 else gen_prog.PRELUDE) + script
core.ensure_built()
rb, rr = diffrun.run_both(full, mode=a.mode)
ob, orf = diffrun.observe(rb), diffrun.observe(rr)
print("brush:", ob, core.txt(rb.err[-300:])); print("bash: ", orf)
path = os.path.join(core.VERIF, "known_findings.json")
data = json.load(open(path)) if os.path.exists(path) else {"findings": []}
data["findings"] = [e for e in data["findings"] if e["id"] != a.id]
e = {"id": a.id, "property": a.property, "status": a.status, "title": a.title, "region": a.region,
     "script": script, "mode": a.mode, "use_prelude": not a.no_prelude}
if a.status == "open":
    if ob == orf and not core.crash_kind(rb):
        print("NOT a divergence; nothing recorded"); sys.exit(1)
    e["defect_obs"] = diffrun.obs_to_json(ob)
    e["bash_obs"] = diffrun.obs_to_json(orf)
else:
    e["commit"] = a.commit
    if ob != orf:
        print("WARNING: fixed entry still diverges")
data["findings"].append(e)
data["findings"].sort(key=lambda x: x["id"])
json.dump(data, open(path, "w"), indent=1)
core.cleanup_scratch()
