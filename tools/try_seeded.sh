#!/bin/bash
# Developer tool: apply a seeded change to /repo, run the given checks (quick), undo it straight afterwards.
# usage: tools/try_seeded.sh seeded/<id> C02 [C03 ...]
set -u
dir=$1; shift
cd /verif
if ! git -C /repo diff --quiet; then echo "repo dirty"; exit 2; fi
git -C /repo apply "$(realpath $dir)/patch.diff" || { echo "patch does not apply"; exit 2; }
for c in "$@"; do
  echo "=== $c on $(basename $dir)"
  VERIF_SEED=${VERIF_SEED:-0} ./check $c --tier ${TIER:-quick} 2>&1 | grep -v "^KNOWN-FINDING" | tail -${TAIL:-6}
  echo "exit=${PIPESTATUS[0]}"
done
git -C /repo checkout -- .
