#!/usr/bin/env python3
"""Developer tool: regenerate MANIFEST.json from the table below (run after adding a check)."""
import json, os, subprocess
V = os.path.dirname(os.path.dirname(os.path.abspath(__file__)))
props = [json.loads(l) for l in open(os.path.join(V, "properties.jsonl"))]

CHECKS = {
 "C02": dict(technique="differential runtime monitor (bash reference) over grammar-generated programs; marker/$? trace comparator; tree shrinking",
   text="Executions of the real brush binary on generated control-flow programs (an exhaustive family of and/or/! chains, case terminator triples, break/continue x level x loop-kind pairs x wrapper, return/exit x wrapper; plus thousands of random programs to depth 5) compared with bash 5.2 on the marker trace, the `$?` probe after every construct and the process exit status. Held-on-observed-executions assurance; exhaustive only for the enumerated small family.",
   note="trusts bash 5.2.15 as the reference; stderr text not compared; open known findings fence off break/continue outside loops, level counts beyond the loop depth, break/continue in subshells and in loop conditions (canaries run instead)", ref="5 C02"),
 "C03": dict(technique="differential runtime monitor (bash reference): failing leaf at every skeleton position x option sets; nounset expansion matrix; random programs",
   text="Real executions under every combination of errexit/pipefail/errtrace/inherit_errexit with a failing leaf placed at each position of ~60 skeletons (exempt and non-exempt contexts through functions, groups, subshells, command substitutions, eval, pipelines, and-or chains of 2-4 operands, option toggles), a 50-form x 4-state x 10-context nounset matrix, and random programs; compared with bash on where the shell stops and with which status.",
   note="bash 5.2.15 reference; nounset abort status compared as zero/non-zero; ERR-trap marker only used in programs that never enable errexit (open finding C03-F1); set -e/+e toggles only generated in non-exempt positions", ref="5 C03"),
 "C04": dict(technique="definitional runtime oracle: values injected via environment, observed by an external argv dumper; bash as oracle self-test",
   text="Every string over a 32-symbol adversarial alphabet up to length 2 (quick) / 3 (thorough) plus random strings to length 40 is passed through 20 expansion contexts under IFS x glob-option configurations in a directory of glob-bait files; the bytes an external process receives must equal what went in. Exhaustive for the stated small space, sampling beyond.",
   note="NUL excluded; custom IFS limited to characters that never occur unquoted in harness text; trusts the harness's argdump helper and Python's expected-value functions (cross-checked against bash on a sample every run)", ref="5 C04"),
 "C16": dict(technique="definitional invariant monitor (EXIT marker count/position/status, hook event log) + bash reference trace over a termination-path product",
   text="Product of 20 termination paths x 10 nesting contexts x 15 trap histories x 3 front-ends (file, -c, stdin): each execution of brush is checked for exactly-once / last / status-reporting EXIT handler, absence after exec, trap.enter(EXIT) events from the verif-hooks log (once, never nested), and against bash's trace; plus $?-preservation cases for ERR/EXIT/DEBUG handlers.",
   note="bash 5.2.15 reference for traces; nounset/:? statuses compared as zero/non-zero; EXIT traps of ( ) subshells and asynchronous signal traps are outside the statement; open finding C16-F1 (handler's own exit status) cannot be repaired without editing a known-failure test", ref="5 C16"),
}
CHECKS["C19"] = dict(technique="in-process invariant monitor (span algebra) on the real highlight_command, exhaustive small alphabet + corpus, hang watchdog on logical progress",
   text="Every line over a 21-symbol shell alphabet up to length 4 (quick) / 5 (thorough) with every char-boundary cursor, a sharded sample of the next length, and grammar-generated / mutated / deeply nested lines with all prefixes are highlighted by the real library; spans must be ordered, contiguous, on char boundaries, cover the line and render back to it. Complete for the enumerated space; sampling beyond.",
   note="PATH emptied so command classification does no file-system walk; reedline rendering itself is not driven", ref="5 C19", engine="harness")
CHECKS["C20"] = dict(technique="in-process reference-model monitor: every op sequence replayed through the real history API vs an executable file model, checked after every step; process-level multi-session runs",
   text="All operation sequences up to length 6 (quick) / 7 (thorough) over 9 history operations plus random longer ones run through Shell::add_to_history / save_history / History::import / remove / clear with fresh Shells as new sessions; file and session list compared with an executable model after each step, plus exactly-once / order / timestamp-attachment invariants; `brush -o history` sessions on stdin at the process boundary.",
   note="timestamp values normalised; #-leading commands excluded from exactly-once as the statement says; model is ~40 lines and is itself the trusted base", ref="5 C20", engine="harness")
CHECKS["C07"] = dict(technique="differential runtime monitor with two references (bash and a Python wrapping-int64 evaluator); all operator pairs rendered without redundant parentheses; in-process parse+eval fast path",
   text="Every (parent, child, side) pair of the 19 binary and 4 unary operators, ternary, assignment forms and side-effect-order probes rendered with minimal parentheses (what exposes a precedence/associativity change), plus random trees to depth 4 over boundary literals in all bases and variables holding numbers/names/expressions, evaluated by the real brush in $(( )), (( )), let, array subscripts and substring offsets and compared with bash (value, error/no-error, final variable values); an in-process layer runs brush_parser+Shell::eval_arithmetic on a much larger random set against the Python evaluator.",
   note="a case is judged only when bash and the Python evaluator agree; assignment to non-lvalues, -i attribute evaluation and tokenizer problems with << / metacharacters inside ${ } and (( )) are open findings with canaries (C07-F1..F5)", ref="5 C07")
CHECKS["C08"] = dict(technique="differential runtime monitor: match bitmaps over pattern x string arrays (case, [[ == ]]) and pathname-expansion result lists vs bash; Python reference matcher cross-checked",
   text="All patterns up to length 3 (quick) / 4 (thorough) over {a b * ? [ ] ! ^ - \\} against all strings up to the same length over {a b ] - newline A}, well-formed extglob patterns, random patterns with classes/ranges/extglob/multi-byte subjects, with nocasematch and quoted-literal variants, all through the real binary's `case` and `[[ ]]`; pathname expansion over directory trees from subsets of 14 names x 60 globs (incl. quoted segments, dot-files) x 8 option sets, compared with bash including order.",
   note="bash 5.2.15 under C.utf8 authoritative; open findings: POSIX classes are ASCII-only (C08-F1), negated extglob groups in context (C08-F2); nocase ranges and degenerate empty extglob groups are not generated", ref="5 C08")
CHECKS["C06"] = dict(technique="batched differential runtime monitor (bash reference) over a systematic operator x value x operand grid; definitional shortest/longest-match oracle with a reference matcher",
   text="About 24k generated ${...} forms - length, substring over a full offset x length grid (negative/zero/in-range/out-of-range/arithmetic), # ## % %% over 32 patterns, the four replace forms, case modification with patterns, @Q U L u E A a, defaults/alternates/errors over set/null/unset/declared states and operand quoting, indirection, prefix-name listing, positional/indexed/sparse/empty/associative lists, several expansions inside one word, with and without nounset - each passed quoted and unquoted to an external argv dumper by the real brush binary and compared with bash (values, field counts, status). Prefix/suffix removal results are additionally checked against the definition (shortest/longest matching, empty match included).",
   note="bash 5.2.15 under C.utf8; open findings fence sparse-array slicing, alternates on empty lists, @a on lists, @u, @A of unset, & in replacements, indirect expansion of unset (C06-F1..F6, C03-N3)", ref="5 C06")
CHECKS["C05"] = dict(technique="batched differential runtime monitor (bash reference): grammar of word pieces x variable environments x IFS modes in identical directory trees; external argv dumper",
   text="Words of 1-4 pieces (literals with glob characters, quotes, $v, $@/$*, arrays quoted and not, $( ), backquotes, $(( )), braces, tildes, multi-component globs, defaults/alternates with nested words) are expanded by the real brush and by bash under IFS in {unset, default, space, newline, empty}, v over 14 values (unset, empty, blank-padded, multi-field, glob-like, brace-like), positional/array lists incl. empty elements, in a tree with dot-files, dot-directories and names with spaces; the argument list received by an external process and $# after `set --` must agree.",
   note="bash 5.2.15 reference; open findings fenced: brace expansion under IFS=/newline, tilde x brace, empty brace alternatives, \"$*\" under empty IFS (known-failure test in the repo), ${@:-w} on lists of several empty strings (C05-F1..F6)", ref="5 C05")
CHECKS["C13"] = dict(technique="definitional round-trip oracle at the process boundary: values injected via environment, 14 quoting producers run by brush, text re-read through eval by brush and by bash, recovered bytes observed by an external argv dumper",
   text="Every string up to length 2 (quick) / a 9000-value sample of length 3 plus all of length 2 (thorough) over a 30-symbol quoting alphabet, and random strings to length 40, used as scalar value, array element, associative key and value, alias body and trap command; producers printf %q, ${v@Q}, ${a[*]@Q}, ${v@A}, declare -p (scalar, exported, -a, -A), set, export -p, the set -x trace, ${m[@]@K}, alias, trap -p; each produced text is given back to eval in word or assignment position in brush and in bash and must recreate the injected bytes.",
   note="NUL excluded; alias/trap -p judged through the reader's own printer; open findings: trap -p single quotes and @K (both mirrored by known-failure tests in the repository)", ref="5 C13")
CHECKS["C09"] = dict(technique="differential runtime monitor with per-step structured state probes (existence, set-ness, attribute set, sorted key/value pairs, child-environment view) over generated action sequences; readonly invariance checked on brush's own probe stream",
   text="Random sequences of 2-8 top-level actions over 22 kinds (assignment, +=, array element/compound, declare/local with -i -l -u -a -A -x -r and +attr, export, readonly, unset, for, read, printf -v, (( )), ${v:=}, getopts, mapfile, temporary-assignment prefixes on builtins, eval, functions and external commands, declare -g) with function calls nested to depth 3; after every step a probe function records the full state of four names through an external argv dumper and what a child process receives; the probe streams of brush and bash must be identical, and a name that became readonly at top level must never change afterwards.",
   note="bash 5.2.15 reference; attribute letters as a set, associative keys sorted; open findings C09-F1..F5 (writes to readonly names, exported arrays, local shadowing a temporary assignment / exported name, array redeclaration, export of unset names) and the integer attribute (C07-F1) are not generated", ref="5 C09")
CHECKS["C10"] = dict(technique="batched differential runtime monitor with external descriptor probes (wr: where output lands / what can be read / fd table seen; fdprobe: the shell's own table before and after; dumpf: file bytes) + definitional checks (restoration, noclobber, literal here-documents)",
   text="Redirection lists of length 1-2 (all ordered pairs over 37 redirections, sampled per carrier in quick) and random lists of 3-4, attached to 13 carriers (external probe, prefix position, function, builtin, brace group, subshell, if, while, function definition, nested groups, exec, read), with and without noclobber, plus here-documents over 18 body-line kinds x 5 delimiter forms x <<-/<< x 7 contexts. Each execution of the real brush is compared with bash on where the probe's lines landed, the fd table the command saw, statuses, file bytes and the shell's descriptor table afterwards; independently of bash the table after must equal the table before unless the command was exec, noclobber must protect existing files and quoted-delimiter here-documents must arrive byte-exact.",
   note="bash 5.2.15 reference; shell diagnostics not compared (marker lines only); open findings C10-F1..F5: close of fd 0-2 for externals, failing redirect on compound aborts, &> under noclobber, exec masked by an outer redirection, backslash-newline in unquoted here-documents", ref="5 C10")
CHECKS["C12"] = dict(technique="definitional state-dump monitor: parent dump (builtin listings, external fd table, `save` JSON of the Shell struct) before == after a mutator ran in a subshell context; inside-dump proves the mutation happened; bash self-test of the same harness; concurrent variant with pause points",
   text="Full product of 56 state mutators (assignments, unset, functions, set/shopt options, aliases, traps, cd/pushd, umask, ulimit, positional parameters, exec redirections, exit, attributes) x 16 subshell contexts (( ), $( ), backquotes, first/middle/last pipeline stage, background + wait / wait %N, process substitutions, function with subshell body, nested, redirected, last stage under set -m + lastpipe) plus random mutator sequences and concurrent runs in which a background subshell keeps mutating while the parent takes 12 dumps. The parent's state must be identical before and after; the subshell's status is compared with bash.",
   note="volatile variables masked; bash must pass the same harness (self-test sample every run); umask/ulimit process-wide are open findings C12-F1/F2 attributed only when the difference is exactly that value; status of `wait %N` not compared (known-failure tests in the repo)", ref="5 C12")
CHECKS["C18"] = dict(technique="definitional N-invariance monitor on hooked state: `save` JSON of the Shell struct (scope / frame / virtual-fd counts), FUNCNAME depth, job table, external fdcount of /proc/<pid>/fd and zombie children, iteration output hashes",
   text="58 fault leaves (missing files, unwritable targets, unknown commands, commands named by a path that cannot be spawned with and without temporary assignments, bad substitutions, readonly targets, return/break/continue out of nested constructs, failing redirect on a function definition, errors in $( ) and pipelines, exec open/close pairs, process substitutions, background jobs) each alone and inside random bodies of 1-4 statements mixed with grammar-generated control flow are run 40 (quick) / 300 and 1500 (thorough) times in one brush process; the internal stack depths sampled after iteration 2 and after N must be equal, no zombies, no job-table growth, OS descriptors must not grow with N, and iteration N must print what iteration 2 printed.",
   note="iteration 1 is warm-up; OS fd count uses a growth criterion (pidfds jitter); bodies that end the session are counted separately and give no statement; relies on the experimental `save` builtin (enabled in the hooks build) as the state dump", ref="5 C18")
CHECKS["C11"] = dict(technique="conservation monitor (external generator of unique lines -> filter stages -> verifying sink reporting through an O_APPEND side log), bash reference for statuses, /proc quiescence witness for hang verdicts, schedule perturbation through verif-hooks pause points and CPU pinning",
   text="Scripts mixing pipelines of 1-3 filter stages (external, function, brace group, subshell, while-read loop) with payloads on both sides of the 64 KiB pipe capacity up to 1 MiB, chunk sizes and delays, early-exit consumers (writer must end with 141), command substitutions (external and in-process producers, nested to depth 3, with statuses, directly after commands with equal/different status) and read-then-reader on files, pipes and here-strings are executed by the real brush under pause-point schedules; the sink verifies byte-for-byte what arrived, `$?`/PIPESTATUS/captured lengths are compared with bash, and a run that exceeds the bound while bash finished is a hang only with the whole process tree asleep and CPU time flat.",
   note="in-process non-final stages and in-process producers inside $( ) are limited to payloads below one pipe buffer (open finding C11-F1: inline execution deadlocks above 64 KiB, deterministically for pipelines, intermittently for substitutions); a change that only makes that deadlock more frequent cannot be told apart from the finding", ref="5 C11")
CHECKS["C17"] = dict(technique="offline checker over an append-only event log (single-write O_APPEND lines by an external helper = happens-before order) + hook event log (job.add ids vs live set); schedules varied by durations, CPU pinning, delivery mode and pause points",
   text="Job sets of 1-8 background jobs of 7 kinds with durations chosen so that every finishing permutation of sets of 2-4 occurs, launched from top level, functions and loops, interleaved with foreground markers, `jobs` listings, repeated waits and later launches, delivered as file, -c and stdin, pinned to 1, 2 or all CPUs, with pause points delaying job-task start, wait_all and poll. The recorded log must show every `done` of a job launched before a `wait` ahead of that wait's WAITED line, each job exactly once, foreground markers in program order; every `jobs` listing and every job.add hook event must show distinct numbers for live jobs.",
   note="`wait <pid>`, `wait -n`, `$!` are outside the statement; C17 verdicts depend on scheduling, replay re-runs the check with the same seed", ref="5 C17")
NA = {}

def main():
    hooks = subprocess.run(["git", "-C", "/repo", "log", "--format=%h %s"], capture_output=True, text=True).stdout.splitlines()
    hook_commits = [l.split()[0] for l in hooks if " verif-hooks:" in l]
    checks = []
    for p in props:
        pid = p["id"]
        if pid not in CHECKS:
            continue
        c = CHECKS[pid]
        checks.append({
            "property_id": pid,
            "quick_cmd": "./check %s --tier quick" % pid,
            "thorough_cmd": "./check %s --tier thorough" % pid,
            "evidence_file": "evidence/%s.json" % pid,
            "replay_cmd_template": "./check %s --replay {path}" % pid,
            "engine": c.get("engine", "vlib"),
            "level_claimed": {"category": "exploration", "text": c["text"], "design_ref": "DESIGN.md section " + c["ref"]},
            "level_note": c["note"],
            "technique": c["technique"],
        })
    na = []
    for p in props:
        if p["id"] not in CHECKS:
            na.append({"property_id": p["id"], "reason": NA.get(p["id"], "check not built yet in this round (runtime monitor planned in DESIGN.md section 5); not claimed until it exists and is silent on the unchanged tree")})
    m = {
        "version": 1,
        "setup_cmd": "./setup.sh",
        "hooks": {
            "guard": "verif-hooks",
            "enable": "cargo feature `verif-hooks` (brush-core, brush-interactive, brush-shell); checks build with: cargo build --offline -p brush-shell --features verif-hooks,experimental-builtins",
            "baseline_off_cmd": "cd /repo && cargo nextest run --workspace --no-fail-fast --tool-config-file pb:/w/lib/nextest.toml --profile pb --test-threads 8 --offline",
            "source_commits": list(reversed(hook_commits)),
            "add_only": True,
        },
        "engines": [
            {"name": "vlib", "path": "check + vlib/*.py", "serves_properties": sorted(CHECKS), "kind_free_text": "python3 driver running the real brush binary (built from /repo with hooks) against bash and definitional oracles; generators, shrinker, evidence writer"},
            {"name": "harness", "path": "harness/ (Rust)", "serves_properties": sorted(CHECKS), "kind_free_text": "vtool multi-call helper (argdump, fdprobe, fdcount, gen, sink, filt, envdump, msleep, logline) used inside workloads by both shells; vharness in-process monitors"},
        ],
        "checks": checks,
        "not_applicable": na,
        "notes": "exit codes of ./check: 0 held, 1 violation (VIOLATION line), 2 inconclusive run (never a violation). Known findings: known_findings.json (read-only at run time).",
    }
    json.dump(m, open(os.path.join(V, "MANIFEST.json"), "w"), indent=1)
    print("checks:", [c["property_id"] for c in checks], "na:", len(na))

main()
