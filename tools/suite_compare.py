#!/usr/bin/env python3
"""Developer tool: compare a nextest log's failing tests with BASELINE.json always_fail."""
import json, re, sys
b = json.load(open('/root/.vp/BASELINE.json'))
af = set(x.split('::', 2)[-1] if False else x for x in b['always_fail'])
log = open(sys.argv[1]).read()
fails = set()
for m in re.finditer(r'^\s+FAIL \[[^\]]*\] \(\s*\d+/\d+\) (\S+)::(\S+) (.*)$', log, re.M):
    fails.add('%s::%s::%s' % (m.group(1), m.group(2), m.group(3)))
print('failing now: %d  always_fail: %d' % (len(fails), len(af)))
print('new failures:', sorted(fails - af))
print('no longer failing:', sorted(af - fails))
