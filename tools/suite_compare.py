#!/usr/bin/env python3
"""Developer tool: compare a nextest log's failing tests with BASELINE.json always_fail / stable_pass."""
import json, re, sys
b = json.load(open('/root/.vp/BASELINE.json'))
af = set(b['always_fail'])
sp = set(b['stable_pass'])
log = open(sys.argv[1]).read()
fails = set()
for m in re.finditer(r'^\s+(?:TRY \d+ )?FAIL \[[^\]]*\] \(\s*\d+/\d+\) (\S+) (.*)$', log, re.M):
    first, rest = m.group(1), m.group(2)
    if '::' in first:            # "crate::binary testname"
        name = '%s::%s' % (first, rest)
    else:                        # "crate module::path::test"
        name = '%s::%s' % (first, rest)
    fails.add(name)
summ = re.findall(r'Summary \[[^\]]*\] (.*)', log)
print('summary:', summ[-1] if summ else None)
print('failing now: %d  always_fail: %d' % (len(fails), len(af)))
print('new failures (in stable_pass or unknown):', sorted(f for f in fails if f not in af))
print('no longer failing:', sorted(af - fails))
