//! C01 thorough layer: the parser crate's entry points interpreted by Miri (undefined behaviour, invalid
//! memory accesses, leaks in the unsafe code of the parsing stack: peg runtime, cached, hashbrown, utf-8 handling).
//! usage: vmiri <hex-lines-file> [shard] [shards]; prints "calls=N lines=N panics=N".

use std::panic::{catch_unwind, AssertUnwindSafe};

fn hexdec(s: &str) -> String {
    let b: Vec<u8> = (0..s.len() / 2)
        .filter_map(|i| u8::from_str_radix(&s[2 * i..2 * i + 2], 16).ok())
        .collect();
    String::from_utf8_lossy(&b).into_owned()
}

fn main() {
    let args: Vec<String> = std::env::args().collect();
    let content = std::fs::read_to_string(&args[1]).unwrap_or_default();
    let shard: usize = args.get(2).and_then(|s| s.parse().ok()).unwrap_or(0);
    let shards: usize = args.get(3).and_then(|s| s.parse().ok()).unwrap_or(1).max(1);
    std::panic::set_hook(Box::new(|_| {}));
    let mut calls = 0u64;
    let mut lines = 0u64;
    let mut panics = 0u64;
    let mut ok_parses = 0u64;
    let opts = brush_parser::ParserOptions::default();
    for (i, l) in content.lines().enumerate() {
        if i % shards != shard {
            continue;
        }
        let line = hexdec(l);
        lines += 1;
        macro_rules! guard {
            ($body:expr) => {{
                calls += 1;
                if catch_unwind(AssertUnwindSafe(|| $body)).is_err() {
                    panics += 1;
                    println!("panic-line={}", l);
                }
            }};
        }
        guard!({
            if let Ok(tokens) = brush_parser::tokenize_str(&line) {
                if brush_parser::parse_tokens(&tokens, &opts).is_ok() {
                    ok_parses += 1;
                }
            }
        });
        guard!({
            let _ = brush_parser::word::parse(&line, &opts);
        });
        guard!({
            let _ = brush_parser::arithmetic::parse(&line);
        });
        guard!({
            let _ = brush_parser::pattern::pattern_to_regex_str(&line, true);
        });
        guard!({
            let _ = brush_parser::prompt::parse(&line);
        });
    }
    println!("calls={calls} lines={lines} panics={panics} ok_parses={ok_parses}");
}
