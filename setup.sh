#!/bin/sh
# Build brush (+hooks) and the harness from files on disk only; safe to re-run.
set -e
cd "$(dirname "$0")"
export CARGO_NET_OFFLINE=true
exec python3 -c "
import sys
sys.path.insert(0, '.')
from vlib import core
t = core.ensure_built(harness=True)
print('setup: built brush + harness in %.1fs' % t)
"
