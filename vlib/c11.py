"""C11 — pipelines and command substitutions move all data, in order, without deadlock.

Monitors: (1) conservation: an external generator emits N bytes of unique numbered lines, every pipeline stage is a
filter, the final external `sink --expect N SEED` verifies byte-for-byte what arrived (loss, duplication, reordering
all decidable) and reports through an O_APPEND side file; (2) statuses: `$?` and `PIPESTATUS` compared with bash,
early-exit consumers must end their writer with 141; (3) `$(...)`: length and content of the captured value against
the generator (minus trailing newlines); (4) `read` on a shared descriptor consumes exactly one line; (5) liveness: a
run that exceeds the bound while bash finished the same script is a hang verdict only with the /proc quiescence witness
(all threads of the whole process tree sleeping, CPU time unchanged over 3 polls); (6) stage-start orders are varied
through the verif-hooks pause points (after each stage spawn, before the wait loop, at command-substitution reader /
task start) and the hook event log shows which were hit.
"""
import json
import os
import random
import signal
import subprocess
import time

from . import core

PRELUDE = r'''fn_filt() { filt "$@"; }
fn_read() { while IFS= read -r l; do printf '%s\n' "$l"; done; }
'''

SIZES = [0, 1, 4095, 65535, 65536, 65537, 200000, 1048576]
SMALL = [0, 1, 4095, 20000]         # safe for in-process (compound / function) non-final stages: below one pipe buffer


def stage(kind, rng, size=0):
    opts = ""
    big = size > 70000
    if rng.random() < 0.3:
        opts = " --chunk %d" % rng.choice([8192, 70000] if big else [1, 512, 4096, 70000])
    if rng.random() < 0.2 and (not big or "70000" in opts) and "--chunk 1" not in opts and not (size > 600 and "--chunk 512" in opts):
        opts += " --delay %d" % rng.choice([1, 5])
        if "--chunk" not in opts and size > 4096:
            opts += " --chunk 8192"
    if rng.random() < 0.2:
        opts += " --start-delay %d" % rng.choice([10, 40])
    if kind == "ext":
        return "filt" + opts
    if kind == "func":
        return "fn_filt" + opts
    if kind == "group":
        return "{ filt%s; }" % opts
    if kind == "subshell":
        return "( filt%s )" % opts
    if kind == "whileread":
        return "fn_read"
    if kind == "builtin_cat":
        return "cat"
    raise ValueError(kind)


KINDS = ["ext", "func", "group", "subshell", "whileread", "builtin_cat"]
INPROC = ("func", "group", "subshell", "whileread")


def gen_pipeline(rng, idx):
    nst = rng.choice([0, 1, 1, 2, 2])
    kinds = [rng.choice(KINDS) for _ in range(nst)]
    # open finding C11-F1: a non-final stage that runs in-process (function / compound) is executed inline while the
    # pipeline is being set up; with more than a pipe buffer of data it blocks forever. Payloads above the buffer
    # therefore only flow through external middles; the canary watches the defect.
    big_ok = all(k not in INPROC for k in kinds)
    size = rng.choice(SIZES if big_ok else SMALL)
    if "whileread" in kinds:
        size = min(size, 20000)
    seed = idx
    prod = rng.choice(["ext", "ext", "extslow"])
    head = "gen %d %d" % (size, seed) + (" --chunk 3000 --delay 1" if prod == "extslow" and size <= 70000 else "")
    mids = [stage(k, rng, size) for k in kinds]
    tag = "p%d" % idx
    sink = 'sink -o "$L" -t .%s --expect %d %d' % (tag, size, seed)
    last_kind = rng.choice(["ext", "group", "func_sink"])
    if last_kind == "group":
        sink = "{ %s; }" % sink
    elif last_kind == "func_sink":
        sink = "fs_%s" % tag
    parts = [head] + mids + [sink]
    text = ""
    if last_kind == "func_sink":
        text += 'fs_%s() { sink -o "$L" -t .%s --expect %d %d; }\n' % (tag, tag, size, seed)
    text += " | ".join(parts) + "\n"
    text += 'echo "@st.%s $? ${PIPESTATUS[*]}"\n' % tag
    return text, {"tag": tag, "size": size, "kinds": kinds, "kind": "pipeline"}


def gen_early_exit(rng, idx):
    size = rng.choice([200000, 1048576])
    n = rng.choice([1, 100, 5000])
    tag = "e%d" % idx
    form = rng.choice(["filt", "filt", "head", "read", "pre"])
    pf = rng.random() < 0.5        # under pipefail the writer's 141 is the pipeline's status
    if form == "filt":
        pipe = "gen %d %d | filt --exit-after %d >/dev/null" % (size, idx, n)
    elif form == "head":
        pipe = "gen %d %d | head -n 1 >/dev/null" % (size, idx)
    elif form == "read":
        pipe = "gen %d %d | { read -r l; }" % (size, idx)
    else:
        pipe = "( exit 3 ) | gen %d %d | head -n 1 >/dev/null" % (size, idx)
    text = ("set -o pipefail\n" if pf else "") + pipe + "\n"
    text += 'echo "@st.%s $? ${PIPESTATUS[*]}"\n' % tag + ("set +o pipefail\n" if pf else "")
    return text, {"tag": tag, "kind": "early_exit", "size": size}


def gen_subst(rng, idx):
    size = rng.choice([0, 1, 4095, 65535, 65536, 65537, 300000])
    depth = rng.choice([1, 1, 2, 3])
    if depth > 1:
        # nesting wraps the data in the `printf` builtin, i.e. an in-process producer: same open finding (C11-F1) above a pipe buffer
        size = min(size, 20000)
    tag = "s%d" % idx
    inner = "gen %d %d" % (size, idx)
    form = rng.choice(["plain", "pipe", "func", "status"])
    if form == "pipe":
        inner += " | filt"
    elif form == "func" and size <= 20000:
        inner += " | fn_filt"
    elif form == "status":
        inner += "; exit %d" % rng.choice([0, 3, 7])
    for _ in range(depth - 1):
        inner = 'printf "%%s\\n" "$(%s)"' % inner
    text = 'v=$(%s)\necho "@sx.%s $? ${#v}"\n' % (inner, tag)
    text += 'printf "%%s" "$v" | sink -o "$L" -t .%sv\n' % tag
    return text, {"tag": tag, "kind": "subst", "size": size, "form": form, "depth": depth}


def gen_subst_inproc(rng, idx, multi_cpu=False):
    """The substitution body produces its output in-process (builtin / function / loop / group), from a variable."""
    # open finding C11-F1 as measured on the unchanged tree: above one pipe buffer an in-process producer inside $( ) deadlocks
    # *always* when the process is confined to one CPU (the body task and the draining reader share the only worker), and
    # *never* (0 of 540 substitutions, also under load and under the pause points) with two or more CPUs as long as the producer
    # is the substitution's own single command (not a pipeline stage, not nested). So payloads above the buffer are generated
    # exactly for that case; a hang there is judged in judge() (deterministic hang = violation).
    form = rng.choice(["echo", "printf", "func", "loop", "group", "echo_pipe"])
    size = rng.choice([1, 4095, 20000, 40000, 60000])
    if multi_cpu and form != "echo_pipe" and rng.random() < 0.6:
        size = rng.choice([65537, 100000, 300000])
    tag = "i%d" % idx
    body = {"echo": 'echo "$big"', "printf": 'printf "%s\\n" "$big"', "func": "f_big", "loop": 'for q in 1; do echo "$big"; done',
            "group": '{ echo "$big"; }', "echo_pipe": 'echo "$big" | cat'}[form]
    text = 'big=$(gen %d %d)\nf_big() { echo "$big"; }\nv=$(%s)\necho "@sx.%s $? ${#v}"\n' % (size, idx, body, tag)
    text += 'printf "%%s" "$v" | sink -o "$L" -t .%sv\n' % tag
    return text, {"tag": tag, "kind": "subst", "size": size, "form": "inproc-" + form, "depth": 1}


def gen_subst_mb(rng, idx):
    """Multi-byte output on both sides of read-buffer boundaries: every byte must come back (a character split by a read
    boundary must not be damaged)."""
    # whole lines only: output cut inside a character is not valid UTF-8, which brush cannot hold in a variable (open finding C11-F2)
    size = rng.choice([10, 700, 1366, 1400, 2731, 9000, 20000])
    unit = rng.choice(["a€b", "€€€", "héllo wörld", "🚀x", "é", "€€€€€€€€€"])
    tag = "m%d" % idx
    text = "v=$(yes '%s' | head -n %d)\necho \"@sx.%s $? ${#v}\"\n" % (unit, size, tag)
    text += 'printf "%%s" "$v" | cksum | { read -r a b; echo "@ck.%s $a $b"; }\n' % tag
    return text, {"tag": tag, "kind": "subst", "size": 0, "form": "multibyte", "depth": 1}


def gen_subst_status(rng, idx):
    """`v=$(cmd)` right after a command whose status equals / differs from cmd's: `$?` must be cmd's status either way."""
    tag = "t%d" % idx
    st = rng.choice([0, 1, 3])
    prev = rng.choice([st, st, 0, 5])
    how = rng.choice(["exit", "false_true", "pipe"])
    if how == "exit":
        inner = "exit %d" % st
    elif how == "false_true":
        inner = "false" if st else "true"
        st = 1 if st else 0
        prev = rng.choice([st, 0, 1])
    else:
        inner = "true | ( exit %d )" % st
    text = '( exit %d ); v=$(%s)\necho "@sx.%s $? ${#v}"\n' % (prev, inner, tag)
    text += '( exit %d ); v=$(%s) || echo "@or.%s $?"\n' % (prev, inner, tag)
    text += 'printf "%%s" "$v" | sink -o "$L" -t .%sv\n' % tag
    return text, {"tag": tag, "kind": "subst", "size": 0, "form": "status-after-%d" % prev, "depth": 1}


def gen_read(rng, idx):
    tag = "r%d" % idx
    src = rng.choice(["file", "pipe", "herestr"])
    if src == "file":
        text = 'gen 320 %d > rf.%s\n{ IFS= read -r first; cat | sink -o "$L" -t .%srest; } < rf.%s\n' % (idx, tag, tag, tag)
    elif src == "pipe":
        text = 'gen 320 %d | { IFS= read -r first; cat | sink -o "$L" -t .%srest; }\n' % (idx, tag)
    else:
        text = '{ IFS= read -r first; cat | sink -o "$L" -t .%srest; } <<< "$(gen 320 %d)"\n' % (tag, idx)
    text += 'echo "@rd.%s ${#first}"\n' % tag
    return text, {"tag": tag, "kind": "read", "src": src}


# line sets for `read` WITHOUT -r on a shared descriptor: continuations followed by an empty line, by another backslash, at the end of input,
# escaped blanks and IFS characters; `read` must consume exactly the logical line and leave every later byte for the next reader
READ_PAYLOADS = [r"a\\\n\nb\nrest1\nrest2\n", r"c\\\n\\\nd\ne\n", r"k1\\\nk2\nk3\nk4\n", r"x\\\\\ny\nz\n", r"p\\ q\\\n r\ns\n", r"\\\n\\\n\\\nt\nu\n",
                 r"one\ntwo\\", r"m\\\n", r"\n\nq\n", r"  lead\\\n  cont  \nnext\n", r"a\\tb\\\n\\\n\nc\nd\n", r"h\\\n\n\\\n\ni\n"]


def gen_read_hostile(rng, idx, payload=None, opts=None):
    tag = "r%d" % idx
    payload = payload if payload is not None else rng.choice(READ_PAYLOADS)
    opts = opts if opts is not None else rng.choice(["", "", "-r ", "IFS= "])
    pre, flag = ("IFS= ", "") if opts == "IFS= " else ("", opts)
    src = rng.choice(["file", "pipe"])
    body = '{ %sread %sfirst; %sread %ssecond; cat | sink -o "$L" -t .%srest; }' % (pre, flag, pre, flag, tag)
    if src == "file":
        text = "printf '%s' > rf.%s\n%s < rf.%s\n" % (payload, tag, body, tag)
    else:
        text = "printf '%s' | %s\n" % (payload, body)
    text += 'echo "@rd.%s ${#first} ${#second} $(printf \'%%s|%%s\' "$first" "$second" | cksum)"\n' % tag
    return text, {"tag": tag, "kind": "read", "src": src + ":hostile"}


# command-substitution output with NUL bytes and newlines in every arrangement at the end (NULs are dropped, then ALL trailing newlines)
SUBST_TAILS = [r"ab\n\0", r"ab\n\0\n", r"ab\0\n\n", r"r1\n\0r2\n\0", r"\0\n\0\n", r"x\n\n\n", r"x\n\n\0\0\n\n", r"\n\nx", r"a\0b\n", r"\n", r"\0", r"a\n\n b\n\n",
               r"a\r\n\r\n", r"a\n\t\n"]


SUBST_FORMS = ["$(printf '%s')", "`printf '%s'`", "$(printf '%s' | cat)", "$(f_t() { printf '%s'; }; f_t)", "$( { printf '%s'; } )"]


def gen_subst_tail(rng, idx, tail=None, form=None):
    tag = "s%d" % idx
    tail = tail if tail is not None else rng.choice(SUBST_TAILS)
    form = (form if form is not None else rng.choice(SUBST_FORMS)) % tail
    text = 'v=%s 2>/dev/null\necho "@sx.%s $? ${#v}"\n' % (form, tag)
    text += 'printf "%%s" "$v" | cksum | { read -r a b; echo "@ck.%s $a $b"; }\n' % tag
    text += 'printf "%%s" "x%sy" 2>/dev/null | sink -o "$L" -t .%sv\n' % (form.replace('"', '\\"') if False else form, tag)
    return text, {"tag": tag, "kind": "subst", "size": 0, "form": "tail", "depth": 1}


def build_script(rng, n, multi_cpu=False):
    text = PRELUDE
    metas = []
    for i in range(n):
        r = rng.random()
        if r < 0.55:
            t, m = gen_pipeline(rng, i)
        elif r < 0.7:
            t, m = gen_early_exit(rng, i)
        elif r < 0.8:
            t, m = gen_subst(rng, i)
        elif r < 0.87:
            t, m = gen_subst_inproc(rng, i, multi_cpu)
        elif r < 0.90:
            t, m = gen_subst_status(rng, i)
        elif r < 0.92:
            t, m = gen_subst_mb(rng, i)
        elif r < 0.94:
            t, m = gen_subst_tail(rng, i)
        elif r < 0.97:
            t, m = gen_read_hostile(rng, i)
        else:
            t, m = gen_read(rng, i)
        text += t
        metas.append(m)
    text += "echo '@end'\n"
    return text, metas


def quiescent(pid):
    """True if every thread of the process tree under pid is sleeping and CPU time does not advance over 3 polls."""
    def tree(p):
        out = [p]
        try:
            kids = subprocess.run(["pgrep", "-P", str(p)], capture_output=True, text=True).stdout.split()
        except OSError:
            kids = []
        for k in kids:
            out += tree(int(k))
        return out

    def snapshot():
        total = 0
        states = []
        for p in tree(pid):
            try:
                for t in os.listdir("/proc/%d/task" % p):
                    with open("/proc/%d/task/%s/stat" % (p, t)) as f:
                        s = f.read()
                    rest = s[s.rfind(")") + 2:].split()
                    states.append(rest[0])
                    total += int(rest[11]) + int(rest[12])
            except OSError:
                pass
        return total, states

    prev = None
    for _ in range(3):
        tot, states = snapshot()
        if any(s not in ("S", "Z", "I") for s in states):
            return False
        if prev is not None and tot != prev:
            return False
        prev = tot
        time.sleep(1)
    return True


def run_script(shell, text, env, cpus, timeout):
    d = core.new_scratch("p11")
    log = os.path.join(d, "sinklog")
    evlog = os.path.join(d, "events")
    e = core.base_env(d)
    e.update({"L": log})
    if shell == "brush":
        e["BRUSH_VERIF_LOG"] = evlog
        e.update(env or {})
    path = os.path.join(d, ".vscript.sh")
    with open(path, "w") as f:
        f.write(text)
    argv = core.shell_argv(shell) + ["./.vscript.sh"]

    def pre():
        if cpus:
            try:
                os.sched_setaffinity(0, cpus)
            except OSError:
                pass

    t0 = time.time()
    p = subprocess.Popen(argv, cwd=d, env=e, stdin=subprocess.DEVNULL, stdout=subprocess.PIPE, stderr=subprocess.PIPE,
                         start_new_session=True, preexec_fn=pre)
    hang = None
    try:
        out, err = p.communicate(timeout=timeout)
    except subprocess.TimeoutExpired:
        hang = "quiescent" if quiescent(p.pid) else "busy"
        try:
            os.killpg(p.pid, signal.SIGKILL)
        except OSError:
            pass
        out, err = p.communicate()
    try:
        os.killpg(p.pid, signal.SIGKILL)
    except OSError:
        pass
    res = {"rc": p.returncode, "out": out, "err": err, "hang": hang, "wall": time.time() - t0, "sink": {}, "events": []}
    try:
        with open(log) as f:
            for line in f:
                parts = line.split()
                if parts and parts[0].startswith("@S."):
                    res["sink"][parts[0][3:]] = " ".join(parts[1:])
    except OSError:
        pass
    try:
        with open(evlog) as f:
            for line in f:
                try:
                    res["events"].append(json.loads(line))
                except ValueError:
                    pass
    except OSError:
        pass
    core.rmtree(d)
    return res


def marks(out):
    m = {}
    for line in out.decode("utf-8", "replace").split("\n"):
        if line.startswith("@"):
            head, _, rest = line.partition(" ")
            m[head] = rest
    return m


def judge(run, item):
    text, metas, pause, cpus = item
    env = {"BRUSH_VERIF_PAUSE": pause} if pause else {}
    rb = run_script("brush", text, env, cpus, 40)
    rh = run_script("bash", text, None, cpus, 40)
    run.evaluations += 1
    ck = core.crash_kind(core.Res(rb["rc"], rb["out"], rb["err"], False, 0))
    if rh["hang"]:
        run.inconclusive += 1
        return
    bad = []
    if rb["hang"] == "quiescent" and any(m.get("form", "").startswith("inproc-") and m["size"] > 65536 for m in metas):
        # the script carries an in-process producer above one pipe buffer inside $( ): three more attempts. A hang that goes away
        # is the intermittent form recorded as open finding C11-F1; one that stays on every attempt is a new, deterministic deadlock
        again = [run_script("brush", text, env, cpus, 40) for _ in range(3)]
        if any(not r["hang"] for r in again):
            kf = next((e for e in run.findings.all_entries() if e["id"] == "C11-F1"), None)
            if kf:
                run.findings.report(kf)
            run.count("intermittent_hang_large_inprocess_substitution")
            return
        bad.append(("deterministic-hang-large-inprocess-substitution", "4 of 4 attempts did not finish; bash took %.1f s" % rh["wall"]))
    elif rb["hang"]:
        if rb["hang"] == "quiescent":
            bad.append(("hang", "brush did not finish in 40 s while bash took %.1f s; whole process tree asleep, CPU time not advancing" % rh["wall"]))
        else:
            run.inconclusive += 1
            run.count("slow_but_busy")
            return
    mb, mh = marks(rb["out"]), marks(rh["out"])
    for m in metas:
        tag = m["tag"]
        if m["kind"] == "pipeline":
            sb = rb["sink"].get(tag)
            if sb is None:
                bad.append(("sink-never-reported", tag))
            elif "ok=1" not in sb:
                bad.append(("data-not-conserved", "%s: %s (sent %d bytes through %s)" % (tag, sb, m["size"], m["kinds"])))
            if mb.get("@st." + tag) != mh.get("@st." + tag):
                bad.append(("status", "%s: brush %r bash %r" % (tag, mb.get("@st." + tag), mh.get("@st." + tag))))
        elif m["kind"] == "early_exit":
            if mb.get("@st." + tag) != mh.get("@st." + tag):
                bad.append(("early-exit-status", "%s: brush %r bash %r" % (tag, mb.get("@st." + tag), mh.get("@st." + tag))))
        elif m["kind"] == "subst":
            if mb.get("@or." + tag) != mh.get("@or." + tag):
                bad.append(("subst-status-in-and-or", "%s: brush %r bash %r" % (tag, mb.get("@or." + tag), mh.get("@or." + tag))))
            if mb.get("@ck." + tag) != mh.get("@ck." + tag):
                bad.append(("subst-bytes-differ", "%s: cksum brush %r bash %r" % (tag, mb.get("@ck." + tag), mh.get("@ck." + tag))))
            if mb.get("@sx." + tag) != mh.get("@sx." + tag):
                bad.append(("subst-status-or-length", "%s: brush %r bash %r" % (tag, mb.get("@sx." + tag), mh.get("@sx." + tag))))
            if rb["sink"].get(tag + "v") != rh["sink"].get(tag + "v"):
                bad.append(("subst-content", "%s: brush %r bash %r" % (tag, rb["sink"].get(tag + "v"), rh["sink"].get(tag + "v"))))
        elif m["kind"] == "read":
            if mb.get("@rd." + tag) != mh.get("@rd." + tag) or rb["sink"].get(tag + "rest") != rh["sink"].get(tag + "rest"):
                bad.append(("read-shared-descriptor", "%s: brush %r/%r bash %r/%r" % (tag, mb.get("@rd." + tag), rb["sink"].get(tag + "rest"),
                                                                                      mh.get("@rd." + tag), rh["sink"].get(tag + "rest"))))
    if ck:
        bad.append(("crash", ck))
    if not bad:
        big = sum(1 for m in metas if m.get("size", 0) > 65536)
        pts = tuple(sorted(set(e.get("point") for e in rb["events"] if e.get("kind") == "pause.point")))
        run.note_nontrivial((tuple(tuple(m.get("kinds", [m["kind"]])) for m in metas), pause, big > 0))
        run.count("pause_points_hit", sum(1 for e in rb["events"] if e.get("kind") == "pause.point"))
        run.count("stage_spawn_events", sum(1 for e in rb["events"] if e.get("kind") == "pipeline.stage_spawned"))
        run.count("payloads_over_pipe_buffer", big)
        run.count("large_inprocess_substitutions_completed", sum(1 for m in metas if m.get("form", "").startswith("inproc-") and m["size"] > 65536))
        run.points.update(pts)
        return
    kinds = sorted(set(b[0] for b in bad))
    sig = "C11|%s|%s" % (",".join(kinds), bad[0][1][:50])
    run.violation(sig, {"kind": "pipeline", "script": text, "pause": pause, "cpus": sorted(cpus) if cpus else None, "failures": bad,
                        "brush_marks": mb, "bash_marks": mh, "brush_sink": rb["sink"], "stderr": core.txt(rb["err"][-600:])})


def run(run):
    quick = run.tier == "quick"
    scale = getattr(run, "scale", 1.0)
    rng = run.rng("c11")
    run.points = set()
    run.rule = ("scripts of 5 items: pipelines of 1-3 filter stages (external, function, brace group, subshell, while-read loop, cat) "
                "between an external generator of unique lines and a verifying sink (last stage external / group / function), payloads "
                "{0,1,4095,65535,65536,65537,200000,1MiB}, chunk sizes and delays; early-exit consumers; command substitutions of the "
                "same sizes nested to depth 3 with statuses; read-then-reader on files, pipes and here-strings; `read` with and without -r over 12 payloads of "
                "continuations / empty lines / trailing backslashes followed by a second read and cat; 14 NUL-and-newline tails of $( ) output in 5 forms; each under a pause-point "
                "schedule and CPU pinning. non-trivial = distinct (stage-kind shapes, pause schedule, payload above pipe buffer?)")
    run.assumptions = ["conservation is definitional (generator and sink are the harness's own external programs); statuses from bash 5.2.15",
                       "hang verdict requires the /proc quiescence witness and bash finishing the same script",
                       "open finding C11-F1: in-process non-final stages are run inline (deadlock above one pipe buffer): not generated above 20 KB; "
                       "a single in-process command inside $( ) above the buffer is generated only when two or more CPUs are available (deadlocks on one CPU: same finding)"]
    from . import diffrun
    diffrun.run_canaries(run, prelude=PRELUDE, timeout=25)
    pauses = [None, "pipeline.stage_spawned=20", "pipeline.stage_spawned#1=30", "pipeline.stage_spawned#2=30", "pipeline.before_wait=30",
              "cmdsubst.before_read=30", "cmdsubst.task_start=30", "pipeline.stage_spawned#1=20,pipeline.before_wait=20",
              "cmdsubst.before_read=20,cmdsubst.task_start=40"]
    cpusets = [None, None, {0}, {0, 1}]
    items = []
    n = int((90 if quick else 3000) * scale)
    for i in range(n):
        sub = random.Random(rng.getrandbits(64))
        cpus = rng.choice(cpusets)
        text, metas = build_script(sub, 5, multi_cpu=(cpus is None or len(cpus) >= 2))
        items.append((text, metas, pauses[i % len(pauses)], cpus))
    # always: every hostile `read` payload (with and without -r) and every NUL / newline tail of a command substitution in three forms
    fixed = [(gen_read_hostile, (pl, o)) for pl in READ_PAYLOADS for o in ("", "-r ")]
    fixed += [(gen_subst_tail, (t, f)) for t in SUBST_TAILS for f in SUBST_FORMS[:3]]
    for k in range(0, len(fixed), 6):
        text, metas = PRELUDE, []
        for j, (fn, args) in enumerate(fixed[k:k + 6]):
            t, m = fn(rng, j, *args)
            text += t
            metas.append(m)
        items.append((text, metas, None, None))
    run.count("fixed_read_and_tail_items", len(fixed))
    core.pmap(lambda it: judge(run, it), items, workers=8)
    run.extra["pause_points_observed"] = sorted(p for p in run.points if p)
    run.sample({"script": items[0][0], "pause": items[0][2]})


def replay(path):
    with open(path) as f:
        rp = json.load(f)
    print("re-running the recorded script once (scheduling may differ):")
    rb = run_script("brush", rp["script"], {"BRUSH_VERIF_PAUSE": rp["pause"]} if rp.get("pause") else {}, None, 40)
    print(json.dumps({"hang": rb["hang"], "marks": marks(rb["out"]), "sink": rb["sink"]}, indent=1)[:3000])
    return 0
