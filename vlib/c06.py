"""C06 — parameter-expansion operators compute bash's result for every value and operand.

Monitor: batched differential runs (vlib.batch) of `${...}` forms over value kinds x states x operators x operands; per
case the quoted and unquoted argument lists (external argdump), the status, and for assigning forms the variable
afterwards are compared with bash. Independently of bash: prefix/suffix removal results are checked against the
definition (shortest/longest matching prefix/suffix, the empty one included) with the Python reference matcher.
"""
import json
import random

from . import batch, core, gen_pat


def sq(s):
    return "'" + s.replace("'", "'\\''") + "'"


SCALARS = ["abc", "abcabc", "a b  c", " lead", "trail ", "*", "a*b", "[x]", "éa🚀b", "a\nb", "x/y/z.tar.gz", "Hello World", "aXbXc",
           "", "0", "-5", "a.b.c", "AbC", "ab", "a"]
PATS = ["a", "b", "*", "?", "a*", "*a", "*b*", "[ab]", "[!a]", "??", "a?c", "X", "*X", "X*", "/", "*/", ".*", "*.", "[[:upper:]]",
        "[[:space:]]", "\\*", "é", "a b", "", "abc", "*c", "b*", " ", "l*", "[a-c]", "A", "[A-Z]"]
REPL = ["", "Z", "ZZ", "/", "\\\\", "a b", "$q", "'q'"]
OFFS = ["0", "1", "2", "5", "6", "7", "99", " -1", " -2", " -6", " -7", " -99", "1+1", "x", "9223372036854775807"]
LENS = [None, "0", "1", "2", "5", "99", " -1", "-1", "-2", "-6", "-99", "1+1"]


def scalar_forms(rng, quick):
    """yield (setup, word, tags)"""
    out = []
    states = [("set", None), ("null", "v="), ("unset", "unset v"), ("declared", "unset v; declare v")]
    for val in SCALARS:
        setup = "v=%s" % sq(val)
        base = [("${#v}", "len")]
        for o in OFFS:
            for l in LENS:
                w = "${v:%s}" % o if l is None else "${v:%s:%s}" % (o, l)
                base.append((w, "substr"))
        for op in ["#", "##", "%", "%%"]:
            for p in PATS:
                base.append(("${v%s%s}" % (op, p), "remove" + op))
        for form in ["/", "//", "/#", "/%"]:
            for p in PATS[:14]:
                if p == "":
                    continue
                for r in (REPL if p in ("a", "*", "?") else REPL[:3]):
                    base.append(("${v%s%s/%s}" % (form, p, r), "replace" + form))
                base.append(("${v%s%s}" % (form, p), "replace-norepl"))
        for op in ["^", "^^", ",", ",,"]:
            base.append(("${v%s}" % op, "case"))
            for p in ["a", "[ab]", "?", "A", "[A-Z]", "é"]:
                base.append(("${v%s%s}" % (op, p), "casepat"))
        for t in ["Q", "U", "L", "u", "E", "A", "a"]:
            base.append(("${v@%s}" % t, "transform@" + t))
        for (w, tag) in base:
            out.append((setup, w, tag, {"val": val}))
    # defaults / alternates / errors over states
    for sname, ssetup in states:
        for val in (["abc", "a b"] if sname == "set" else [None]):
            setup = ("v=%s" % sq(val)) if sname == "set" else ssetup
            for op in ["-", ":-", "=", ":=", "+", ":+", "?", ":?"]:
                for wd in ["w", "", "a b", "$q", "'q r'", "\"q r\"", "${q:-z}", "*", "~"]:
                    out.append((setup + "; q=QQ", "${v%s%s}" % (op, wd), "default" + op, {"state": sname, "assigns": "=" in op}))
            for w in ["${#v}", "${v:1}", "${v#a}", "${v/a/b}", "${v^^}", "${v@Q}", "${v@A}", "${v@a}", "${!v}", "$v", "${v:0:1}"]:
                out.append((setup, w, "state-" + sname, {"state": sname}))
                out.append(("set -u; " + setup, w, "nounset-" + sname, {"state": sname}))
    # several expansions inside ONE word (quoting state must be restored between them)
    ops2 = [":+", ":-", "-", "+"]
    operands2 = ['"a b"', "'q'", "w", "$q", '"$q"', "\\x", "'$q'"]
    for o1 in ops2:
        for w1 in operands2:
            for o2 in ops2:
                for w2 in operands2:
                    for setup in ("v=set; q=QQ", "unset v; q=QQ"):
                        out.append((setup, "${v%s%s} ${v%s%s}" % (o1, w1, o2, w2), "two-in-one-word", {"val2": setup[:5]}))
    for e1 in ["${v#a}", "${v:1}", "${v^^}", "$v", "${#v}", "$(echo sub)", "$((1+2))"]:
        for e2 in ["${v:+'q'}", "${v:-\"a b\"}", "${v%c}", "${w:-'d e'}", "${v/b/'Z'}"]:
            out.append(("v=abc; unset w", "%s:%s" % (e1, e2), "two-in-one-word", {"val2": "mix"}))
    # indirection
    for t in ["tgt", "arr[1]", "arr[@]", "nope", "1", "@", ""]:
        out.append(("tgt=TV; arr=(e0 'e 1' e2); set -- p1 p2; v=%s" % sq(t), "${!v}", "indirect", {}))
        out.append(("tgt=TV; arr=(e0 'e 1' e2); set -- p1 p2; v=%s" % sq(t), "${!v:-dflt}", "indirect", {}))
    # ${a[k]:=w}: the default is stored under exactly that key / index (also when the array was only declared)
    for setup in ("declare -A m", "declare -A m=()", "declare -A m=([z]=1)", "declare -a m", "m=(p q)", "unset m"):
        for w in ("${m[key]:=v} ${m[key]} ${!m[@]}", "${m[$q]:=w} ${!m[@]}", "${m[1+1]:=two} ${!m[@]}", "${m[2]:=x} ${m[2]} ${#m[@]}", "${m[0]=d} ${m[@]}"):
            if setup in ("declare -a m", "m=(p q)", "unset m") and ("key" in w or "$q" in w):
                continue        # a word key on an indexed array is an arithmetic matter (C07)
            if "[z]=1" in setup:
                w = w.replace("${!m[@]}", "${#m[@]} ${m[z]}")       # (the order in which an associative array lists its keys is unspecified)
            out.append((setup + "; q='some key'", w, "elem-default", {"val2": setup}))
    out.append(("pre1=a; pre2=b; prex=c; other=d", "${!pre*}", "prefixnames", {}))
    out.append(("pre1=a; pre2=b; prex=c; other=d", "${!pre@}", "prefixnames", {}))
    return out


def list_forms():
    out = []
    setups = [
        ("pos", "set -- a 'b c' '' d e", "@", "*"),
        ("pos0", "set --", "@", "*"),
        ("pos1", "set -- ''", "@", "*"),
        ("idx", "a=(x 'y z' '' w q)", "a[@]", "a[*]"),
        ("sparse", "a=([1]=x [3]='y z' [7]=w)", "a[@]", "a[*]"),
        ("empty", "a=()", "a[@]", "a[*]"),
        ("assoc", "declare -A a=([k1]=v1 [k2]='v 2')", "a[@]", "a[*]"),
    ]
    for name, setup, at, star in setups:
        for ref in (at, star):
            words = ["${#%s}" % ref, "${%s}" % ref]
            if name != "assoc":
                for o in ["0", "1", "2", "4", "5", "6", " -1", " -2", " -5", " -6", " -99", "99"]:
                    for l in [None, "0", "1", "2", "99"]:
                        words.append("${%s:%s}" % (ref, o) if l is None else "${%s:%s:%s}" % (ref, o, l))
                for op in ["#", "##", "%", "%%"]:
                    for p in ["x", "?", "*", "y*", "* z"]:
                        words.append("${%s%s%s}" % (ref, op, p))
                for form in ["/", "//"]:
                    words.append("${%s%s?/Z}" % (ref, form))
                for op in ["^", "^^", ",,"]:
                    words.append("${%s%s}" % (ref, op))
                for t in ["Q", "U", "a"]:
                    words.append("${%s@%s}" % (ref, t))
                for op in [":-", ":+", "-", "+"]:
                    words.append("${%s%sW V}" % (ref, op))
            if ref.startswith("a["):
                words.append("${!%s}" % ref)
                words.append("${#a[1]}")
                words.append("${a[1]:1}")
                words.append("${a[-1]}")
            for w in words:
                out.append((setup, w, "list-" + name, {"list": name}))
    return out


EXT_PATS = ["@(a|ab)", "@(ab|a)", "+(a|ab)", "*(ab)", "?(a)*(ab)", "@(foo|foobar)", "+(x|xy)", "@(é|éè)", "?(a)b", "*(a|b)c", "@(*.tar|*.tar.gz)",
            "+([a-c])", "@(a|b)*", "*@(c|bc)", "?(x)", "+(ab|abc)c", "@(a*|ab)", "*(a)b", "@(|a)b", "@(b|ab|abc)"]
EXT_VALS = ["abc", "ababx", "xyxyz", "foobar.c", "éèé", "x.tar.gz", "aab", "abcabc", "", "b", "ab"]


def ext_forms():
    out = []
    for val in EXT_VALS:
        setup = "shopt -s extglob; v=%s" % sq(val)
        for p in EXT_PATS:
            for op in ["#", "##", "%", "%%"]:
                out.append((setup, "${v%s%s}" % (op, p), "remove" + op, {"val": val, "ext": True}))
            for form in ["/", "//", "/#", "/%"]:
                out.append((setup, "${v%s%s/Z}" % (form, p), "replace" + form, {"val": val, "ext": True}))
        out.append((setup.replace("v=", "a=(x ") + " yy)", "${a[@]##@(a|ab)}", "list-ext", {"list": "ext"}))
    return out


RAND_ALPHA = ["a", "b", "A", "B", ".", "-", "_", " ", "*", "?", "é", "\n", "ab", "ba"]      # (no `/`: unquoted results must not glob outside the scratch directory; `//` in glob results is open finding C05-F7)


def random_forms(rng, n):
    """Random values x random patterns (the C08 pattern grammar, half of them with extglob) x removal / replacement / case operators."""
    out = []
    while len(out) < n:
        ext = rng.random() < 0.5
        p = gen_pat.random_pattern(rng, ext=ext, maxpieces=4)
        if "()" in p or "(|" in p or "|)" in p or "||" in p or "/" in p or "}" in p or "'" in p:
            continue            # degenerate alternatives (bash's own answers are inconsistent); `/` and `}` would end the operand
        if "!(" in p:
            continue            # open finding C08-F2 (negated group in context)
        if "-[:" in p:
            continue            # a class as a range endpoint is unspecified
        val = "".join(rng.choice(RAND_ALPHA) for _ in range(rng.randint(0, 6))).replace("\\n", "\n")
        if "[:" in p and any(ord(ch) > 127 for ch in val):
            continue            # open finding C08-F1 (POSIX classes are ASCII-only)
        setup = ("shopt -s extglob; " if ext else "shopt -u extglob; ") + "v=%s" % sq(val)
        k = rng.random()
        if k < 0.55:
            op = rng.choice(["#", "##", "%", "%%"])
            out.append((setup, "${v%s%s}" % (op, p), "remove" + op, {"val": val, "ext": ext, "rand": True}))
        elif k < 0.9:
            form = rng.choice(["/", "//", "/#", "/%"])
            out.append((setup, "${v%s%s/%s}" % (form, p, rng.choice(["", "Z", "ZZ"])), "replace" + form, {"val": val, "ext": ext, "rand": True}))
        else:
            op = rng.choice(["^", "^^", ",", ",,"])
            if "*" in p or len(p) > 6:
                continue
            out.append((setup, "${v%s%s}" % (op, p), "casepat", {"val": val, "ext": ext, "rand": True}))
    return out


def make_case(setup, word, tag, meta):
    block = "%s\nargdump -t q.{i} -- \"%s\"\necho \"@s.{i} $?\"\nargdump -t u.{i} -- %s\necho \"@t.{i} $?\"" % (setup, word, word)
    if meta.get("assigns"):
        block += "\nargdump -t v.{i} -- \"${v-UNSET}\""
    return {"block": block, "word": word, "setup": setup, "tag": tag, "meta": meta}


# ---- regions of open findings (each has a canary in known_findings.json) -----------------------------------

def region(c):
    w, setup, meta = c["word"], c["setup"], c["meta"]
    val = meta.get("val")
    lk = meta.get("list")
    if lk == "sparse" and (":" in w.split("]", 1)[-1] or "[-1]" in w):
        return "sparse-array-slice"
    if lk in ("pos0", "empty") and (":+W" in w or "+W" in w):
        return "alternate-on-empty-list"
    if lk is not None and "@a}" in w:
        return "transform-a-on-list"
    if w.startswith("${!v") and meta.get("state") in ("unset", "declared", "null"):
        return "indirect-on-unset"       # same family as C03-N3 (invalid indirect expansion handling)
    if "@u}" in w:
        return "transform-u"
    if ("@A}" in w or "@a}" in w) and ("declare v" in setup or "unset v" in setup or meta.get("state") in ("unset", "declared")):
        return "transform-A-unset"
    if w.startswith("${v/") and ("&" in w):
        return "patsub-ampersand"
    import re
    if c["tag"].startswith("replace") and re.search(r"[@?*+!]\(", w):
        return "extglob-in-replacement"          # open findings C06-F7 / C06-F8
    if c["tag"].startswith("replace") and re.search(r"\[[!^]\]", w):
        # bash 5.2 quirk, not a finding: in ${v/pat/rep} a bracket expression that starts `[!]` / `[^]` never matches (the same
        # pattern matches in case / [[ ]] / ${v#pat}); brush treats it like everywhere else
        return "bash-quirk-negated-bracket-with-leading-bracket-in-replacement"
    if c["tag"] == "casepat":
        pat = re.sub(r"^\$\{v(\^\^|,,|\^|,)", "", w)[:-1]
        if not (len(pat) == 1 or re.fullmatch(r"\\.|\[(\\.|\[:\w+:\]|[^\]])+\]", pat)):
            return "case-modification-multichar-pattern"      # open finding C06-F9
    return None


def definitional_want(c):
    tag = c["tag"]
    if not tag.startswith("remove") or c["meta"].get("val") is None:
        return None
    val, w = c["meta"]["val"], c["word"]
    op = tag[len("remove"):]
    pat = w[len("${v" + op):-1]
    if "[[:" in pat or (pat.startswith("\\") and not c["meta"].get("rand")):
        return None
    try:
        if op in ("#", "##"):
            return gen_pat.remove_prefix(val, pat, op == "##", bool(c["meta"].get("ext")))
        return gen_pat.remove_suffix(val, pat, op == "%%", bool(c["meta"].get("ext")))
    except Exception:
        return None


class _Amb(Exception):
    pass


def definitional_replace(val, pat, rep, form, ext):
    """${v/p/r} by the definition: leftmost position, longest match there; /# longest prefix, /% longest suffix, // repeated.
    Raises _Amb where bash's treatment of empty matches is its own business (open finding C06-F8 covers brush's)."""
    m = lambda t: gen_pat.matches(pat, t, ext)
    n = len(val)
    if val == "":
        raise _Amb()
    if form == "/#":
        for k in range(n, -1, -1):
            if m(val[:k]):
                return rep + val[k:]
        return val
    if form == "/%":
        for k in range(0, n + 1):
            if m(val[k:]):
                return val[:k] + rep
        return val
    if form == "/":
        for i in range(0, n + 1):
            for j in range(n, i - 1, -1):
                if m(val[i:j]):
                    if j == i:
                        raise _Amb()
                    return val[:i] + rep + val[j:]
        return val
    out, i = "", 0
    while i < n:
        hit = None
        for j in range(n, i - 1, -1):
            if m(val[i:j]):
                hit = j
                break
        if hit is None:
            out += val[i]
            i += 1
        elif hit == i:
            raise _Amb()
        else:
            out += rep
            i = hit
    return out


def replace_want(c):
    """(want | None) for random replacement cases: literal replacement text only."""
    if not (c["tag"].startswith("replace") and c["meta"].get("rand")):
        return None
    form = c["tag"][len("replace"):]
    body = c["word"][len("${v" + form):-1]
    if "/" not in body:
        return None
    pat, rep = body.split("/", 1)
    if "[[:" in pat:
        return None
    try:
        return definitional_replace(c["meta"]["val"], pat, rep, form, bool(c["meta"].get("ext")))
    except Exception:
        return None


def quoted_value(obs):
    q = [x for x in (obs or []) if x[0] == "@Aq"]
    if not q:
        return None
    parts = q[0][1].strip().split(" ")
    if parts[0] != "1":
        return None
    return bytes.fromhex(parts[1]).decode("utf-8", "replace") if parts[1] != "-" else ""


def judge_definitional(run, c, b):
    """prefix/suffix removal: brush's quoted result must be what the definition says (reference matcher)."""
    tag = c["tag"]
    if not tag.startswith("remove") or c["meta"].get("val") is None:
        return True
    val = c["meta"]["val"]
    w = c["word"]
    op = tag[len("remove"):]
    pat = w[len("${v" + op):-1]
    if pat.startswith("\\") or "[[:" in pat:
        return True
    q = [x for x in b if x[0] == "@Aq"]
    if not q:
        return True
    parts = q[0][1].strip().split(" ")
    if parts[0] != "1":
        return True
    got = bytes.fromhex(parts[1]).decode("utf-8", "replace") if parts[1] != "-" else ""
    want = definitional_want(c)
    if want is None:
        return True
    run.count("definitional_checks")
    if got != want and c["meta"].get("rand"):
        # called when brush and bash agree: on random patterns (odd bracket expressions, ...) the reference matcher is then the
        # one out of step, not a witness against both shells
        run.count("reference_matcher_disagrees_with_both_shells")
        return True
    if got != want:
        run.violation("C06|definitional|%s|%s" % (op, pat), {"kind": "definitional", "value": val, "word": w, "got": got,
                                                            "want_by_definition": want, "setup": c["setup"]})
        return False
    return True


def run(run):
    quick = run.tier == "quick"
    scale = getattr(run, "scale", 1.0)
    rng = run.rng("c06")
    run.rule = ("scalar values (%d, incl. blanks, newline, glob chars, multi-byte) x every operator family: ${#v}, ${v:o:l} over a "
                "systematic offset x length grid (negative, zero, in range, out of range, arithmetic), # ## %% %%%% x %d patterns, "
                "/ // /# /%% x patterns x replacements, ^ ^^ , ,, with patterns, @Q U L u E A a; defaults/alternates/errors x "
                "{set,null,unset,declared} x operand words; indirection; lists ($@ $*, indexed, sparse, empty, associative) x "
                "slices/removals/case/transform/defaults; with and without nounset. each through a quoted and an unquoted argdump. "
                "non-trivial = distinct (operator family, value/list kind) that agreed with bash" % (len(SCALARS), len(PATS)))
    run.assumptions = ["bash 5.2.15 under C.utf8 reference; status compared, stderr text not",
                       "regions of open findings (multi-byte length/offset, @u, @A of unset, & in replacement) are skipped and watched by canaries"]
    from . import diffrun
    diffrun.run_canaries(run, prelude="")
    forms = scalar_forms(rng, quick) + list_forms() + ext_forms() + random_forms(rng, int((4000 if quick else 120000) * scale))
    cases = [make_case(*f) for f in forms]
    skipped = 0
    keep = []
    for c in cases:
        r = region(c)
        if r:
            run.count("skipped_region:" + r)
            continue
        keep.append(c)
    cases = keep
    if quick:
        rng.shuffle(cases)
        cases = cases[: int(30000 * scale)]
    run.count("cases", len(cases))

    def on_agree(c, b):
        run.note_nontrivial((c["tag"], c["meta"].get("val", c["meta"].get("list", c["meta"].get("state", c["meta"].get("val2"))))))
        judge_definitional(run, c, b)

    def on_diff(c, b, h, ck, stderr):
        want = definitional_want(c)
        if want is None:
            want = replace_want(c)
        if not ck and want is not None and quoted_value(b) == want and quoted_value(h) is not None and quoted_value(h) != want:
            # bash itself departs from the definition here (shortest/longest matching prefix/suffix by the reference matcher) and
            # brush returns the definitional answer: the references disagree, not judged
            run.count("oracle_ambiguous_bash_vs_definition")
            return
        kind = "crash:" + ck if ck else ("no-result" if b is None else diffkind(b, h))
        sig = "C06|%s|%s|%s" % (c["tag"], kind, c["word"][:40])
        run.violation(sig, {"kind": "expansion", "setup": c["setup"], "word": c["word"], "brush": b, "bash": h, "crash": ck,
                            "stderr": stderr})

    run.max_violations = 40
    batch.judge_all(run, cases, on_diff, on_agree=on_agree, batch=60)
    run.sample({"setup": cases[0]["setup"], "word": cases[0]["word"]})
    run.sample({"setup": cases[-1]["setup"], "word": cases[-1]["word"]})


def diffkind(b, h):
    bd, hd = dict(b), dict(h)
    if bd.get("@s") != hd.get("@s") or bd.get("@z") != hd.get("@z"):
        return "status"
    if bd.get("@Aq") != hd.get("@Aq"):
        return "quoted-value"
    if bd.get("@Au") != hd.get("@Au"):
        return "unquoted-fields"
    return "other"


def replay(path):
    with open(path) as f:
        rp = json.load(f)
    if rp.get("kind") != "expansion":
        return 0
    c = make_case(rp["setup"], rp["word"], "replay", {"assigns": "=" in rp["word"]})
    res = {}
    for sh in ("brush", "bash"):
        o, r = batch.run_shell_batch(sh, [c], "", None, None, 30)
        res[sh] = o.get(0)
    print(json.dumps({"setup": rp["setup"], "word": rp["word"], "brush": res["brush"], "bash": res["bash"]}, indent=1))
    if res["brush"] != res["bash"]:
        print("VIOLATION property=C06 replay=%s" % path)
        return 1
    return 0
