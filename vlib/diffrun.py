"""Differential execution brush vs bash with marker-line observations."""
import os

from . import core


def observe(res, marker=b"@"):
    """Observation = marker lines of stdout, whether other text is present, exit status."""
    if res.timed_out:
        return ("timeout",)
    lines = res.out.split(b"\n")
    marks = tuple(l.decode("utf-8", "replace") for l in lines if l.startswith(marker))
    other = any(l and not l.startswith(marker) for l in lines)
    return (marks, other, res.rc)


def run_both(script, mode="file", env_extra=None, timeout=15.0, setup=None, args=(), shell_opts=(), stdin_data=None,
             files=None, keep=False):
    """Run script under both shells, each in its own fresh scratch dir populated by setup(dir)."""
    out = {}
    dirs = {}
    for sh in ("brush", "bash"):
        d = core.new_scratch(sh[:2])
        if setup:
            setup(d)
        r = core.run_shell(sh, script, d, mode=mode, env_extra=env_extra, timeout=timeout, args=args,
                           shell_opts=shell_opts, stdin_data=stdin_data)
        out[sh] = r
        dirs[sh] = d
        if files is not None:
            files[sh] = snapshot_tree(d)
        if not keep:
            core.rmtree(d)
    if keep:
        return out["brush"], out["bash"], dirs
    return out["brush"], out["bash"]


def snapshot_tree(d, marker=b"@", raw=False):
    """Map relative path -> (kind, marker lines, other-text bit) for every file under d (skips dot-script files)."""
    snap = {}
    for root, dirs, files in os.walk(d):
        dirs.sort()
        for name in sorted(files):
            if name.startswith(".vscript"):
                continue
            p = os.path.join(root, name)
            rel = os.path.relpath(p, d)
            try:
                if os.path.islink(p):
                    snap[rel] = ("link", os.readlink(p))
                    continue
                with open(p, "rb") as f:
                    data = f.read(1 << 22)
            except OSError as e:
                snap[rel] = ("unreadable", str(e.errno))
                continue
            if raw:
                snap[rel] = ("file", data)
            else:
                lines = data.split(b"\n")
                marks = tuple(l.decode("utf-8", "replace") for l in lines if l.startswith(marker))
                other = any(l and not l.startswith(marker) for l in lines)
                snap[rel] = ("file", marks, other)
        for name in dirs:
            p = os.path.join(root, name)
            snap[os.path.relpath(p, d) + "/"] = ("dir",)
    return snap


def describe(obs):
    if obs == ("timeout",):
        return {"timeout": True}
    return {"marks": list(obs[0]), "other_text": obs[1], "rc": obs[2]}


def first_diff(a, b):
    """Human-readable first difference between two observations."""
    if a == ("timeout",) or b == ("timeout",):
        return "timeout: brush=%s bash=%s" % (a == ("timeout",), b == ("timeout",))
    for i, (x, y) in enumerate(zip(a[0], b[0])):
        if x != y:
            return "marker %d: brush=%r bash=%r" % (i, x, y)
    if len(a[0]) != len(b[0]):
        n = min(len(a[0]), len(b[0]))
        ex = a[0][n:n + 1] or b[0][n:n + 1]
        return "marker count: brush=%d bash=%d (next: %r)" % (len(a[0]), len(b[0]), ex[0])
    if a[2] != b[2]:
        return "exit status: brush=%r bash=%r" % (a[2], b[2])
    if a[1] != b[1]:
        return "non-marker stdout text present: brush=%r bash=%r" % (a[1], b[1])
    return "same"


def obs_to_json(obs):
    if obs == ("timeout",):
        return {"timeout": True}
    return {"marks": list(obs[0]), "other": obs[1], "rc": obs[2]}


def obs_from_json(j):
    if j.get("timeout"):
        return ("timeout",)
    return (tuple(j["marks"]), j["other"], j["rc"])


def run_canaries(run, prelude="", timeout=15.0, setup=None):
    """Run the exact reproducers of this property's known findings (open and fixed).

    open:  brush == recorded defect -> KNOWN-FINDING line; brush == bash -> silently fine (it got fixed);
           anything else -> VIOLATION (a different failure at the same spot).
    fixed: brush must equal bash, otherwise VIOLATION (the defect returned).
    """
    for e in run.findings.all_entries():
        if "script" not in e:
            continue
        script = prelude + e["script"] if e.get("use_prelude", True) else e["script"]
        rb, rr = run_both(script, mode=e.get("mode", "file"), timeout=timeout, setup=setup)
        ob, orf = observe(rb), observe(rr)
        run.evaluations += 1
        run.count("canaries_run")
        ck = core.crash_kind(rb)
        if ob == orf and not ck:
            run.count("canaries_agree_with_bash")
            continue
        if e.get("status") == "open":
            d = e.get("defect_obs")
            if d is not None and ob == obs_from_json(d):
                run.findings.report(e, e.get("title", ""))
                run.count("canaries_known_defect")
                continue
        run.violation("canary:%s:%s" % (e["id"], first_diff(ob, orf)),
                      {"kind": "canary", "finding": e["id"], "script": script, "mode": e.get("mode", "file"),
                       "brush": describe(ob), "bash": describe(orf), "crash": ck,
                       "brush_stderr": core.txt(rb.err[-1500:])})
