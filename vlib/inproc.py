"""Running the in-process harness (vharness) and decoding its JSON result."""
import json
import os
import subprocess

from . import core


def run_harness(args, timeout=1800, env_extra=None):
    env = dict(os.environ, RUST_BACKTRACE="0")
    if env_extra:
        env.update(env_extra)
    try:
        p = subprocess.run([core.VHARNESS] + [str(a) for a in args], stdout=subprocess.PIPE, stderr=subprocess.PIPE,
                           timeout=timeout, env=env)
    except subprocess.TimeoutExpired:
        return {"harness_timeout": True}
    out = p.stdout.decode("utf-8", "replace").strip().split("\n")
    last = out[-1] if out else ""
    try:
        j = json.loads(last)
    except ValueError:
        return {"harness_error": True, "rc": p.returncode, "stdout": p.stdout[-500:].decode("utf-8", "replace"),
                "stderr": p.stderr[-1500:].decode("utf-8", "replace")}
    j["_rc"] = p.returncode
    return j


def write_hex(path, lines):
    with open(path, "w") as f:
        for l in lines:
            f.write(l.encode("utf-8", "surrogatepass").hex() + "\n")
