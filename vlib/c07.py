"""C07 — arithmetic evaluates as bash's wrapping 64-bit C-style integer arithmetic.

Monitors: (1) process level: batches of expressions run by the real brush binary and by bash in `$(( ))`, `(( ))`, `let`,
array subscripts and substring offsets; result, error/no-error and the final values of the variables compared;
(2) in-process fast path: brush_parser::arithmetic::parse + Shell::eval_arithmetic on large random sets against the
Python wrapping-int64 reference evaluator. A case is judged only when bash and the Python evaluator agree
(else `oracle_ambiguous`); shifts outside 0..63 and INT_MIN/-1 are decided by bash alone.
"""
import json
import os
import random

from . import core, inproc
from . import gen_arith as ga

ENVS = [
    {"x": "5", "y": "-3", "z": "2", "u": "", "w": "7"},
    {"x": "0", "y": "1", "z": "9223372036854775807", "u": "y", "w": "1+2"},
    {"x": "-9223372036854775808", "y": "64", "z": "-1", "u": "z", "w": "x"},
    {"x": "3", "y": "010", "z": "0x10", "u": "2#11", "w": "y*2"},
]
BATCH = 150
NAMES = ["x", "y", "z", "u", "w"]


def setup_line(env):
    return " ".join("%s='%s'" % (k, env[k]) for k in NAMES)


def render_script(cases):
    """cases: list of (ctx, env, text). One framed block per case."""
    s = []
    for i, (ctx, env, text) in enumerate(cases):
        s.append(setup_line(env))
        s.append("r=ERR")
        if ctx == "expand":
            s.append("r=$(( %s ))" % text)
        elif ctx == "command":
            s.append("(( %s ))" % text)
            s.append("r=s$?")
        elif ctx == "let":
            s.append('let "%s"' % text)
            s.append("r=s$?")
        elif ctx == "subscript":
            s.append("unset a; a[%s]=v" % text)
            s.append('r="k${!a[*]}"')
        elif ctx == "subread":
            s.append("a=(p0 p1 p2 p3 p4 p5 p6 p7 p8 p9 p10 p11 p12 p13 p14 p15 p16 p17 p18 p19 p20)")
            s.append('r="k${a[ %s ]}"' % text)
        elif ctx == "substring":
            s.append("s=abcdefghijklmnop")
            s.append('r="t${s: %s :2}"' % text)
        s.append('echo "@r %d $r"' % i)
        s.append('echo "@v %d $x|$y|$z"' % i)
    return "\n".join(s) + "\n"


def run_batch(shell, cases):
    d = core.new_scratch("a7")
    r = core.run_shell(shell, render_script(cases), d, timeout=60)
    core.rmtree(d)
    out = {}
    for line in r.out.decode("utf-8", "replace").split("\n"):
        if line.startswith("@r ") or line.startswith("@v "):
            parts = line.split(" ", 2)
            try:
                i = int(parts[1])
            except ValueError:
                continue
            out.setdefault(i, {})[parts[0][1]] = parts[2] if len(parts) > 2 else ""
    return out, r


def py_expect(ctx, env, tree):
    """-> (r, vars) per the reference evaluator, or raises Ambiguous. r is the string the script would print."""
    e = dict(env)
    try:
        v = ga.evaluate(tree, e)
        err = False
    except ga.ArithError:
        err = True
        v = None
    if ctx == "expand":
        r = "ERR" if err else str(v)
    elif ctx in ("command", "let"):
        r = "s1" if err else ("s0" if v != 0 else "s1")
    elif ctx == "subscript":
        r = None if err else "k%d" % v
    elif ctx == "subread":
        r = None if err else ("kp%d" % v if 0 <= v <= 20 else None)
    else:
        r = None
    return r, "%s|%s|%s" % (e["x"], e["y"], e["z"]), err


def judge_batch(run, cases):
    """cases: list of (ctx, env, tree, text, origin)"""
    plain = [(c[0], c[1], c[3]) for c in cases]
    ob, rb = run_batch("brush", plain)
    oh, rh = run_batch("bash", plain)
    run.evaluations += len(cases)
    ck = core.crash_kind(rb)
    redo = []
    for i, (ctx, env, tree, text, origin) in enumerate(cases):
        b = ob.get(i)
        h = oh.get(i)
        if h is None or "r" not in h or "v" not in h:
            run.count("bash_frame_missing")
            continue
        try:
            pr, pv, perr = py_expect(ctx, env, tree)
            amb = False
        except ga.Ambiguous:
            amb = True
            pr = pv = None
        except RecursionError:
            amb = True
            pr = pv = None
        if not amb:
            if (pr is not None and pr != h["r"]) or (pv != h["v"] and not perr):
                run.count("oracle_ambiguous")
                run.amb_samples.append({"text": text, "env": env, "ctx": ctx, "python": [pr, pv], "bash": h})
                continue
        else:
            run.count("decided_by_bash_alone")
        if b is None or "r" not in b or "v" not in b:
            redo.append(i)
            continue
        if b == h:
            run.note_nontrivial((ctx, shape_of(tree)))
            run.count("ctx:" + ctx)
            continue
        report(run, ctx, env, tree, text, origin, b, h, None)
    # frames missing for brush: a fatal error or crash in the batch hid later cases; re-run them one per process
    for i in redo:
        ctx, env, tree, text, origin = cases[i]
        o1, r1 = run_batch("brush", [(ctx, env, text)])
        h = oh[i]
        b = o1.get(0)
        ck1 = core.crash_kind(r1)
        if b is not None and b == h and not ck1:
            run.count("batch_only_missing")
            continue
        report(run, ctx, env, tree, text, origin, b, h, ck1, core.txt(r1.err[-400:]))
    if ck and not redo:
        run.violation("C07|crash|" + ck, {"kind": "crash", "crash": ck, "stderr": core.txt(rb.err[-600:])})


def shape_of(tree):
    k = tree[0]
    if k in ("lit", "var"):
        return k
    if k == "bin":
        return "(%s %s %s)" % (shape_of(tree[2]), tree[1], shape_of(tree[3]))
    if k == "un":
        return "(%s%s)" % (tree[1], shape_of(tree[2]))
    if k in ("pre", "post"):
        return k + tree[1]
    if k == "asg":
        return "(v%s%s)" % (tree[1], shape_of(tree[3]))
    if k == "tern":
        return "(%s?%s:%s)" % (shape_of(tree[1]), shape_of(tree[2]), shape_of(tree[3]))
    if k == "comma":
        return "(%s,%s)" % (shape_of(tree[1]), shape_of(tree[2]))
    return "[%s]" % shape_of(tree[1])


def ops_of(tree, acc=None):
    acc = acc if acc is not None else []
    k = tree[0]
    if k == "bin":
        acc.append(tree[1])
        ops_of(tree[2], acc)
        ops_of(tree[3], acc)
    elif k == "un":
        acc.append("u" + tree[1])
        ops_of(tree[2], acc)
    elif k in ("pre", "post"):
        acc.append(k + tree[1])
    elif k == "asg":
        acc.append("asg" + tree[1])
        ops_of(tree[3], acc)
    elif k == "tern":
        acc.append("?:")
        for t in tree[1:]:
            ops_of(t, acc)
    elif k == "comma":
        acc.append(",")
        ops_of(tree[1], acc)
        ops_of(tree[2], acc)
    elif k == "paren":
        ops_of(tree[1], acc)
    return acc


def has_guarded_pow(tree, guarded=False):
    """True if a `**` sits in a position that short-circuit evaluation may skip (2nd/3rd operand of ?:, right operand of && ||)."""
    k = tree[0]
    if k == "bin":
        if tree[1] == "**" and guarded:
            return True
        return has_guarded_pow(tree[2], guarded) or has_guarded_pow(tree[3], guarded or tree[1] in ("&&", "||"))
    if k == "un":
        return has_guarded_pow(tree[2], guarded)
    if k == "asg":
        return has_guarded_pow(tree[3], guarded)
    if k == "tern":
        return has_guarded_pow(tree[1], guarded) or has_guarded_pow(tree[2], True) or has_guarded_pow(tree[3], True)
    if k == "comma":
        return has_guarded_pow(tree[1], guarded) or has_guarded_pow(tree[2], guarded)
    if k == "paren":
        return has_guarded_pow(tree[1], guarded)
    return False


def report(run, ctx, env, tree, text, origin, b, h, ck, stderr=""):
    kind = "crash:" + ck if ck else ("missing" if b is None else ("value" if b.get("r") != h.get("r") else "side-effects"))
    ops = sorted(set(ops_of(tree)))
    if not ck and b is not None and h.get("r") == "ERR" and b.get("r") != "ERR" and has_guarded_pow(tree):
        # bash's exppower() raises "exponent less than 0" even while parsing an operand that short-circuit evaluation skips
        # (there is no noeval guard there, unlike for division by zero). The property asks for short-circuit evaluation and for
        # an error on negative exponents that are *evaluated*; an error from a skipped operand is a quirk of the reference.
        run.count("bash_errors_on_negative_exponent_in_a_skipped_operand")
        return
    if b is not None and h.get("r") == "ERR" and b.get("r") != "ERR":
        kind = "no-error-where-bash-errors"
    elif b is not None and b.get("r") == "ERR" and h.get("r") != "ERR":
        kind = "error-where-bash-evaluates"
    sig = "C07|%s|%s|%s" % (ctx, kind, ",".join(ops)[:60])
    kf = run.findings.match_signature("%s|%s" % (kind, ",".join(ops)))
    if kf:
        run.findings.report(kf)
        return
    run.violation(sig, {"kind": "expr", "ctx": ctx, "env": env, "text": text, "origin": origin, "brush": b, "bash": h,
                        "crash": ck, "stderr": stderr})


def gen_cases(run, quick, scale):
    rng = run.rng("gen")
    cases = []
    # (A) all operator pairs, minimal parentheses, env 0 and a second env
    pairs = ga.all_pairs()
    for t in pairs:
        cases.append(("expand", ENVS[0], t, ga.render(t), "pairs"))
    for t in pairs[::3]:
        cases.append(("expand", ENVS[1], t, ga.render(t, rng), "pairs-spaced"))
        cases.append(("expand", ENVS[0], t, ga.render(t, None, full=True), "pairs-full"))
    # (B) random trees
    n = int((5000 if quick else 150000) * scale)
    for _ in range(n):
        g = ga.AGen(random.Random(rng.getrandbits(64)), max_depth=rng.choice([2, 3, 3, 4]))
        t = g.node()
        style = rng.random()
        text = ga.render(t, rng if style < 0.5 else None, full=style > 0.85)
        env = rng.choice(ENVS)
        ctx = rng.choices(["expand", "command", "let", "subscript", "substring", "subread"], [56, 12, 12, 6, 7, 7])[0]
        if ctx in ("subscript", "substring", "subread"):
            # only expressions whose expected value is a usable index / offset and whose text fits the syntax
            try:
                v = ga.evaluate(t, dict(env))
            except (ga.ArithError, ga.Ambiguous, RecursionError):
                ctx = "expand"
            else:
                # open findings C07-F3/F4: in `a[EXPR]=v` shell metacharacters inside EXPR break brush's tokenizer, and `<<`
                # inside `${s: EXPR :n}` is taken for a here-document; those texts go to the other contexts instead.
                if ctx == "subscript" and (not (0 <= v <= 500) or any(c in text for c in " ()|&<>;!~^?,")):
                    ctx = "subread"
                if ctx == "subread" and (not (0 <= v <= 20) or "<<" in text):
                    ctx = "expand"
                if ctx == "substring" and (not (0 <= v <= 14) or "?" in text or ":" in text or "<<" in text):
                    ctx = "expand"
        if ctx == "let" and ('"' in text):
            ctx = "expand"
        # inside ${ } bash reads `<(` / `>(` as a process substitution: not an arithmetic question
        if ctx in ("substring", "subread", "subscript") and ("<(" in text or ">(" in text):
            ctx = "expand"
        # `(( (...` : brush decides between arithmetic command and nested subshells from the leading parentheses (finding
        # C02-F5 family) and bash rejects `${s: ((...)) :n}`; expressions that start with a parenthesis use $(( )) instead
        if ctx in ("command", "substring") and text.lstrip().startswith("("):
            ctx = "expand"
        # open finding C07-F5: inside `(( ))` in a multi-line script a `<<` that follows a `))` is taken for a here-document
        if ctx == "command" and "<<" in text and "))" in text.replace(" ", ""):
            ctx = "expand"
        cases.append((ctx, env, t, text, "random"))
    return cases


def inproc_layer(run, quick, scale):
    rng = run.rng("inproc")
    n = int((60000 if quick else 1500000) * scale)
    d = core.new_scratch("a7i")
    path = os.path.join(d, "exprs.hex")
    items = []
    with open(path, "w") as f:
        for _ in range(n):
            g = ga.AGen(random.Random(rng.getrandbits(64)), max_depth=rng.choice([2, 3, 4]))
            t = g.node()
            env = rng.choice(ENVS)
            text = ga.render(t, rng if rng.random() < 0.5 else None, full=rng.random() > 0.9)
            items.append((env, t, text))
            line = " ".join("%s=%s" % (k, env[k]) for k in NAMES if env[k] != "") + ";;;" + text
            f.write(line.encode().hex() + "\n")
    res = inproc.run_harness(["arith", "--file", path], timeout=1800)
    if "results" not in res:
        raise core.Inconclusive("vharness arith failed: %s" % json.dumps(res)[:500])
    judged = 0
    for (env, t, text), r in zip(items, res["results"]):
        run.evaluations += 1
        if "panic" in r:
            run.violation("C07|inproc|panic|" + r["panic"][:60], {"kind": "inproc", "env": env, "text": text, "result": r})
            continue
        e = dict(env)
        try:
            v = ga.evaluate(t, e)
            err = False
        except ga.ArithError:
            err = True
        except (ga.Ambiguous, RecursionError):
            run.count("inproc_ambiguous_skipped")
            continue
        judged += 1
        if err:
            if "e" not in r:
                report_inproc(run, env, t, text, r, "ERR", None, "no-error-where-reference-errors")
            continue
        want_vars = {k: e[k] for k in ("x", "y", "z")}
        got_vars = {k: r.get("vars", {}).get(k, "") for k in ("x", "y", "z")}
        # unset/empty variables: the harness only defines non-empty ones
        for k in want_vars:
            if env[k] == "" and got_vars[k] == "" and want_vars[k] == "":
                got_vars[k] = want_vars[k]
        if "e" in r:
            report_inproc(run, env, t, text, r, v, want_vars, "error-where-reference-evaluates")
        elif r["v"] != v:
            report_inproc(run, env, t, text, r, v, want_vars, "value")
        elif got_vars != want_vars:
            report_inproc(run, env, t, text, r, v, want_vars, "side-effects")
        else:
            run.note_nontrivial(("inproc", shape_of(t)))
    run.count("inproc_judged", judged)


def report_inproc(run, env, t, text, r, v, want_vars, kind):
    ops = sorted(set(ops_of(t)))
    kf = run.findings.match_signature("%s|%s" % (kind, ",".join(ops)))
    if kf:
        run.findings.report(kf)
        return
    run.violation("C07|inproc|%s|%s" % (kind, ",".join(ops)[:60]),
                  {"kind": "inproc", "env": env, "text": text, "brush": r, "reference": {"v": v, "vars": want_vars},
                   "note": "reference = Python wrapping-int64 evaluator; confirm with ./check C07 --replay"})


# ---- (D) literal boundary / variable content / subscript side-effect probes (bash alone is the reference) --------------

def _lit_forms(n):
    """spellings of the non-negative integer n in every literal syntax bash has"""
    def base(b, digits=ga.DIGITS):
        out, m = "", n
        while True:
            out = digits[m % b] + out
            m //= b
            if m == 0:
                return out
    return ["%d" % n, "0x%x" % n, "0X%X" % n, "0%o" % n, "2#" + base(2), "8#" + base(8), "16#" + base(16), "36#" + base(36),
            "64#" + base(64)]


def probe_cases():
    """-> list of (setup, expr). Observed: result or error, x, i and the whole array a."""
    out = []
    for n in (2**63 - 1, 2**63, 2**63 + 1, 2**64 - 1, 2**64, 2**64 + 1, 10**23, 2**31, 2**32):
        for f in _lit_forms(n):
            out.append(("", f))
            out.append(("", "-%s" % f))
            out.append(("", "%s+1" % f))
            out.append(("x=%s" % f, "x"))
    blanks = ["' '", "'  '", r"$'\t'", r"$'\n'", "' 3 '", "'3 '", r"$' \t3\n'", "''", "' y'", "' 1 + 2 '"]
    for v in blanks:
        for e in ("x", "x+1", "-x", "x++", "++x", "x+=2", "x*y", "!x", "x?4:5", "a[x]", "(x)"):
            out.append(("x=%s; y=4" % v, e))
    for e in ("", " ", "  ", "\t"):
        out.append(("", e))
    subs = ["a[i++]+=5", "a[i++]++", "++a[i++]", "a[++i]*=2", "a[i+=1]-=1", "a[i++]--", "a[i--]<<=1", "a[a[i++]]+=1", "a[i++]|=8",
            "a[i++]=7", "a[i++]%=2", "--a[--i]", "a[i++]+=a[i]", "a[j=i+1]+=1", "a[i++]^=1", "x=a[i++]+a[i++]", "a[i++]>>=1",
            "a[i++]&=1", "a[i++]/=1", "a[i++]-=i"]
    for e in subs:
        for i0 in (0, 1, 2):
            out.append(("a=(1 2 3 4 5); i=%d" % i0, e))
    return out


def render_probes(cases):
    s = []
    for k, (setup, expr) in enumerate(cases):
        s.append("unset x y a i j; " + setup)
        s.append("r=ERR")
        s.append("r=$(( %s ))" % expr)
        s.append('echo "@r %d $r"' % k)
        s.append('echo "@v %d ${x-U}|${i-U}|${j-U}|${a[*]-U}|${!a[*]}"' % k)
    return "\n".join(s) + "\n"


def run_probes(shell, cases):
    d = core.new_scratch("a7p")
    r = core.run_shell(shell, render_probes(cases), d, timeout=60)
    core.rmtree(d)
    out = {}
    for line in r.out.decode("utf-8", "replace").split("\n"):
        if line.startswith("@r ") or line.startswith("@v "):
            parts = line.split(" ", 2)
            try:
                k = int(parts[1])
            except ValueError:
                continue
            out.setdefault(k, {})[parts[0][1]] = parts[2] if len(parts) > 2 else ""
    return out, r


def probe_layer(run):
    cases = probe_cases()
    run.count("probe_cases", len(cases))
    for lo in range(0, len(cases), 120):
        chunk = cases[lo:lo + 120]
        oh, _ = run_probes("bash", chunk)
        ob, rb = run_probes("brush", chunk)
        for k, (setup, expr) in enumerate(chunk):
            run.evaluations += 1
            h = oh.get(k)
            if h is None or "r" not in h or "v" not in h:
                run.count("bash_frame_missing")
                continue
            b = ob.get(k)
            ck = None
            if b is None or "r" not in b or "v" not in b:
                o1, r1 = run_probes("brush", [(setup, expr)])
                b = o1.get(0)
                ck = core.crash_kind(r1)
            if b == h and not ck:
                run.note_nontrivial(("probe", expr if len(expr) < 14 else expr[:3] + "#%d" % len(expr), setup[:6]))
                run.count("ctx:probe")
                continue
            kind = "crash:" + ck if ck else ("missing" if b is None else ("value" if b.get("r") != h.get("r") else "side-effects"))
            cluster = "probe|" + ("literal" if not setup or setup.startswith("x=") and expr == "x" and setup[2:3].isdigit() else
                                  "blank-value" if setup.startswith("x=") else "subscript-side-effect")
            kf = run.findings.match_signature(cluster + "|" + expr)
            if kf:
                run.findings.report(kf)
                continue
            run.violation("C07|%s|%s|%s" % (cluster, kind, expr[:40]),
                          {"kind": "probe", "setup": setup, "expr": expr, "brush": b, "bash": h, "crash": ck})


def run(run):
    quick = run.tier == "quick"
    scale = getattr(run, "scale", 1.0)
    run.amb_samples = []
    run.rule = ("(A) every (parent, child, side) operator pair over 19 binary + 4 unary operators, ternary, assignment forms and "
                "side-effect order probes rendered WITHOUT redundant parentheses, also fully parenthesised and with random spacing; "
                "(B) random trees to depth 4 over literals in bases 2/8/10/16/36/62/64 incl. 2^31, 2^63-1, 2^63 and variables holding "
                "numbers, empty strings, other variables' names and expressions, in $(( )), (( )), let, array subscripts and substring "
                "offsets - run under brush and bash in batches; (C) in-process parse+eval of a larger random set against the Python "
                "wrapping-int64 evaluator. non-trivial = distinct (context, expression shape) that agreed")
    run.assumptions = ["a case is judged only when bash and the Python evaluator agree; shifts outside 0..63 and INT_MIN/-1 by bash alone",
                       "assignments are generated only where the C grammar allows an lvalue (open finding C07-F2 covers the rest)"]
    from . import diffrun, gen_prog
    diffrun.run_canaries(run, prelude="")
    cases = gen_cases(run, quick, scale)
    batches = [cases[i:i + BATCH] for i in range(0, len(cases), BATCH)]
    run.count("process_batches", len(batches))
    core.pmap(lambda b: judge_batch(run, b), batches)
    inproc_layer(run, quick, scale)
    probe_layer(run)
    amb = run.counters.get("oracle_ambiguous", 0)
    if amb * 50 > len(cases):
        raise core.Inconclusive("reference evaluator disagrees with bash on %d of %d cases, e.g. %s" % (
            amb, len(cases), json.dumps(run.amb_samples[:2])))
    run.sample({"text": cases[0][3], "ctx": cases[0][0], "env": cases[0][1]})
    run.sample({"text": cases[-1][3], "ctx": cases[-1][0], "env": cases[-1][1]})
    if run.amb_samples:
        run.extra["oracle_ambiguous_samples"] = run.amb_samples[:3]


def replay(path):
    with open(path) as f:
        rp = json.load(f)
    if rp.get("kind") == "probe":
        ob, rb = run_probes("brush", [(rp["setup"], rp["expr"])])
        oh, _ = run_probes("bash", [(rp["setup"], rp["expr"])])
        print(json.dumps({"setup": rp["setup"], "expr": rp["expr"], "brush": ob.get(0), "bash": oh.get(0)}, indent=1))
        if ob.get(0) != oh.get(0) or core.crash_kind(rb):
            print("VIOLATION property=C07 replay=%s" % path)
            return 1
        return 0
    if "text" not in rp:
        return 0
    ctx = rp.get("ctx", "expand")
    ob, rb = run_batch("brush", [(ctx, rp["env"], rp["text"])])
    oh, _ = run_batch("bash", [(ctx, rp["env"], rp["text"])])
    print(json.dumps({"text": rp["text"], "env": rp["env"], "brush": ob.get(0), "bash": oh.get(0),
                      "stderr": core.txt(rb.err[-400:])}, indent=1))
    b, h = ob.get(0) or {}, oh.get(0) or {}
    if not core.crash_kind(rb) and h.get("r") == "ERR" and b.get("r") != "ERR" and "**" in rp["text"] and any(x in rp["text"] for x in ("?", "&&", "||")):
        print("not judged: bash raises 'exponent less than 0' for a ** operand that short-circuit evaluation skips (see DESIGN 10.4)")
        return 0
    if ob.get(0) != oh.get(0) or core.crash_kind(rb):
        print("VIOLATION property=C07 replay=%s" % path)
        return 1
    return 0
