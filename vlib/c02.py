"""C02 — control flow and exit statuses of compound commands equal bash's.

Monitor: marker/`$?` trace comparator over generated programs; reference monitor = bash 5.2.
"""
import itertools
import json

from . import core, diffrun, gen_prog

# Regions of known divergence the random generator steers away from (each has canaries in known_findings.json).
AVOID = {"ctl_outside", "level_beyond"}


def build_case(rng, max_depth, max_nodes):
    g = gen_prog.Gen(rng, max_depth=max_depth, max_nodes=max_nodes, avoid=AVOID)
    body = g.seq(0, {}, 3)
    return body, dict(g.funcs), g


def in_known_region(body, funcs, body_in_subshell=False):
    """Structural predicates for the regions of open known findings (see known_findings.json, C02-*)."""
    found = []
    in_cond = [0]
    negated = [0]

    def rec(n, ld, in_func, in_sub):
        k = n[0]
        if k == "ctl":
            kw, lv = n[1], n[2]
            if kw in ("break", "continue"):
                if in_cond[0]:
                    found.append("loopctl-in-loop-condition")
                elif ld == 0:
                    found.append("loopctl-outside-loop")      # incl. in a function called from a loop, in a subshell in a loop
                elif lv is not None and lv > ld:
                    found.append("level-beyond-depth")
            if kw == "return" and in_sub and negated[0]:
                found.append("negated-return-in-subshell")       # open finding C02-F10
            return
        if k == "seq":
            for c in n[1]:
                rec(c, ld, in_func, in_sub)
        elif k in ("and", "or"):
            rec(n[1], ld, in_func, in_sub)
            rec(n[2], ld, in_func, in_sub)
        elif k == "not":
            negated[0] += 1
            rec(n[1], ld, in_func, in_sub)
            negated[0] -= 1
        elif k == "if":
            rec(n[1], ld, in_func, in_sub)
            rec(n[2], ld, in_func, in_sub)
            for c, b in n[3]:
                rec(c, ld, in_func, in_sub)
                rec(b, ld, in_func, in_sub)
            if n[4] is not None:
                rec(n[4], ld, in_func, in_sub)
        elif k in ("while", "until"):
            in_cond[0] += 1
            rec(n[2], ld + 1, in_func, in_sub)
            in_cond[0] -= 1
            rec(n[3], ld + 1, in_func, in_sub)
        elif k in ("for", "cfor"):
            rec(n[3], ld + 1, in_func, in_sub)
        elif k == "case":
            for _, b, _ in n[2]:
                rec(b, ld, in_func, in_sub)
        elif k == "group":
            rec(n[1], ld, in_func, in_sub)
        elif k == "subshell":
            saved, negated[0] = negated[0], 0
            rec(n[1], 0, in_func, True)
            negated[0] = saved
        elif k == "pipe":
            saved, negated[0] = negated[0], 0
            for c in n[1]:
                rec(c, 0, in_func, True)
            negated[0] = saved

    rec(body, 0, False, body_in_subshell)
    for fb in funcs.values():
        # a function body that contains a subshell'd `case` is only a problem when... always (parse time)
        rec(fb, 0, True, False)
    return found[0] if found else None


def run_case(body, funcs, timeout=15.0, keep=False):
    if keep:
        script = gen_prog.render_program(funcs, body, probes=gen_prog.PROBE_KEEP, prelude=gen_prog.PRELUDE_KEEP)
    else:
        script = gen_prog.render_program(funcs, body)
    # positional parameters are set: `for v in ; do` (empty list) and `for v; do` (positional parameters) must differ
    rb, rr = diffrun.run_both(script, timeout=timeout, args=("pa", "pb"))
    return script, rb, rr


def features_of(body, funcs):
    f = set()
    for t in [body] + list(funcs.values()):
        for n in gen_prog.walk(t):
            if n[0] == "ctl":
                f.add("%s%s" % (n[1], "" if n[2] is None else ":n"))
            elif n[0] != "seq" and n[0] != "leaf":
                f.add(n[0])
    return sorted(f)


def ctl_crossings(body, funcs):
    """Distinct (control keyword, enclosing construct chain) combinations — the non-triviality measure."""
    found = set()

    def rec(n, chain):
        k = n[0]
        if k == "ctl":
            found.add((n[1], n[2], tuple(chain[-3:])))
            return
        if k == "seq":
            for c in n[1]:
                rec(c, chain)
        elif k in ("and", "or"):
            rec(n[1], chain + [k])
            rec(n[2], chain + [k])
        elif k == "not":
            rec(n[1], chain + [k])
        elif k == "if":
            rec(n[1], chain + ["ifc"])
            rec(n[2], chain + ["if"])
            for c, b in n[3]:
                rec(c, chain + ["ifc"])
                rec(b, chain + ["if"])
            if n[4] is not None:
                rec(n[4], chain + ["if"])
        elif k in ("while", "until"):
            rec(n[2], chain + [k + "c"])
            rec(n[3], chain + [k])
        elif k in ("for", "cfor"):
            rec(n[3], chain + [k])
        elif k == "case":
            for _, b, t in n[2]:
                rec(b, chain + ["case" + t])
        elif k in ("group", "subshell"):
            rec(n[1], chain + [k])
        elif k == "call":
            if n[1] in funcs and len(chain) < 12:
                rec(funcs[n[1]], chain + ["call"])

    rec(body, [])
    return found


def judge(run, body, funcs, origin):
    keep = origin.endswith("+keep")        # status-preserving probes (see gen_prog.PRELUDE_KEEP)
    script, rb, rr = run_case(body, funcs, keep=keep)
    run.evaluations += 1
    ob, orf = diffrun.observe(rb), diffrun.observe(rr)
    ck = core.crash_kind(rb)
    if orf == ("timeout",):
        run.inconclusive += 1
        return
    if ob == orf and not ck:
        for x in ctl_crossings(body, funcs):
            run.note_nontrivial(x)
        for n in gen_prog.walk(body):
            run.count("construct:" + n[0])
        return
    # divergence: shrink
    def still(b, f):
        if in_known_region(b, f):
            return False
        _, r1, r2 = run_case(b, f, keep=keep)
        o1, o2 = diffrun.observe(r1), diffrun.observe(r2)
        return o2 != ("timeout",) and (o1 != o2 or core.crash_kind(r1) is not None)

    b2, f2 = gen_prog.shrink(body, funcs, still, budget=120)
    script2, r1, r2 = run_case(b2, f2, keep=keep)
    o1, o2 = diffrun.observe(r1), diffrun.observe(r2)
    sig = "C02|%s|%s" % (",".join(features_of(b2, f2)), shape(o1, o2, core.crash_kind(r1)))
    run.violation(sig, {"kind": "program", "origin": origin, "script": script2, "original_script": script,
                        "brush": diffrun.describe(o1), "bash": diffrun.describe(o2),
                        "first_diff": diffrun.first_diff(o1, o2), "crash": core.crash_kind(r1),
                        "brush_stderr": core.txt(r1.err[-1500:])})


def shape(o1, o2, ck):
    if ck:
        return "crash:" + ck
    if o1 == ("timeout",):
        return "brush-timeout"
    if o1[0] != o2[0]:
        if len(o1[0]) < len(o2[0]) and o1[0] == o2[0][:len(o1[0])]:
            return "trace-truncated"
        if len(o1[0]) > len(o2[0]) and o2[0] == o1[0][:len(o2[0])]:
            return "trace-extended"
        return "trace-differs"
    if o1[2] != o2[2]:
        return "exit-status"
    return "other-text"


def small_programs():
    """Exhaustive family: every control keyword x level x loop-nesting shape x position, plus
    all and/or/not chains of length 3 over statuses {0,1}, plus all case terminator triples."""
    L = lambda m, s: ("leaf", m, s)
    progs = []
    # and/or/not chains
    for ops in itertools.product(["and", "or"], repeat=2):
        for sts in itertools.product([0, 1], repeat=3):
            for neg in itertools.product([False, True], repeat=3):
                leaves = [L("a%d" % i, s) for i, s in enumerate(sts)]
                leaves = [("not", l) if n else l for l, n in zip(leaves, neg)]
                t = (ops[0], leaves[0], leaves[1])
                t = (ops[1], t, leaves[2])
                progs.append((("seq", [t]), {}))
    # case terminators
    for terms in itertools.product([";;", ";&", ";;&"], repeat=3):
        for w in ["a", "b", "c"]:
            items = [(["a"], ("seq", [L("x1", 0)]), terms[0]), (["b", "a*"], ("seq", [L("x2", 1)]), terms[1]),
                     (["*"], ("seq", [L("x3", 3)]), terms[2])]
            progs.append((("seq", [("case", w, items)]), {}))
            # the same with one item emptied: an item without commands ends with status 0, whatever fell through into it
            for empty in range(3):
                items2 = [(p, ("seq", []) if k == empty else b, t) for k, (p, b, t) in enumerate(items)]
                progs.append((("seq", [("case", w, items2)]), {}))
    # loop control: keyword x n x depth x loop kinds, keyword guarded so it fires on iteration 2
    loops = ["for", "while", "until", "cfor"]
    for outer, inner in itertools.product(loops, repeat=2):
        for kw in ("break", "continue"):
            for n in (None, 1, 2):
                for wrap in ("plain", "group", "if", "and", "case"):
                    ctl = ("ctl", kw, n)
                    if wrap == "group":
                        ctl = ("group", ("seq", [ctl]))
                    elif wrap == "if":
                        ctl = ("if", L("c", 0), ("seq", [ctl]), [], None)
                    elif wrap == "and":
                        ctl = ("and", L("c", 0), ctl)
                    elif wrap == "case":
                        ctl = ("case", "a", [(["a"], ("seq", [ctl]), ";;")])
                    guarded = ("if", L("g", "$((i2 != 2))"), ("seq", [L("skip", 0)]), [], ("seq", [ctl]))
                    ib = ("seq", [L("in", 0), guarded, L("after", 1)])
                    innerl = mkloop(inner, "i2", ib)
                    ob = ("seq", [L("o1", 0), innerl, L("o2", 3)])
                    progs.append((("seq", [mkloop(outer, "i1", ob)]), {}))
    # return / exit at depth inside functions
    for kw, n in itertools.product(("return", "exit"), (None, 0, 3)):
        for wrap in ("plain", "loop", "group", "subshell", "if", "andor"):
            ctl = ("ctl", kw, n)
            inner = ("seq", [L("p", 1), ctl, L("q", 0)])
            if wrap == "loop":
                inner = ("seq", [mkloop("for", "i1", inner)])
            elif wrap == "group":
                inner = ("seq", [("group", inner)])
            elif wrap == "subshell":
                inner = ("seq", [("subshell", inner), L("r", 0)])
            elif wrap == "if":
                inner = ("seq", [("if", L("c", 0), inner, [], None), L("r", 0)])
            elif wrap == "andor":
                inner = ("seq", [("and", L("c", 0), ("group", inner)), L("r", 0)])
            f = {"f1": inner}
            progs.append((("seq", [L("b", 0), ("call", "f1"), L("a", 0)]), f))
            progs.append((("seq", [mkloop("for", "i9", ("seq", [("call", "f1"), L("a", 0)]))]), f))
    # `$?` after constructs that run nothing
    for c in [("if", L("c", 1), ("seq", [L("t", 0)]), [], None),
              ("for", "i1", [], ("seq", [L("t", 3)])),
              ("cfor", "i1", 0, ("seq", [L("t", 3)])),
              ("while", "i1", L("c", 1), ("seq", [L("t", 3)]), 2),
              ("until", "i1", L("c", 0), ("seq", [L("t", 3)]), 2),
              ("case", "z", [(["a"], ("seq", [L("t", 3)]), ";;")])]:
        for pre in (0, 1, 3):
            progs.append((("seq", [L("pre", pre), c]), {}))
    return progs


def mkloop(kind, var, body):
    if kind == "for":
        return ("for", var, ["1", "2", "3"], body)
    if kind == "cfor":
        return ("cfor", var, 3, body)
    if kind == "while":
        return ("while", var, ("leaf", "wc", 0), body, 3)
    return ("until", var, ("leaf", "uc", 1), body, 3)


def run(run):
    quick = run.tier == "quick"
    scale = getattr(run, "scale", 1.0)
    run.rule = ("programs from the typed control-flow grammar (gen_prog) run under brush and bash; compared on marker "
                "trace, `$?` probes after every construct and process exit status. exhaustive family: and/or/not chains, "
                "case terminator triples, break/continue x level x loop-kind pairs x wrapper, return/exit x wrapper. "
                "non-trivial = distinct (control keyword, level, enclosing construct chain) combos seen in agreeing runs")
    run.assumptions = ["bash 5.2.15 under LC_ALL=C.utf8 is the reference", "stderr text is not compared",
                       "generator steers away from the regions of open known findings (canaries run instead)"]
    diffrun.run_canaries(run, prelude=gen_prog.PRELUDE)

    small = small_programs()
    if scale < 1.0:
        rng = run.rng("small")
        rng.shuffle(small)
        small = small[: int(len(small) * scale)]
    run.count("small_programs", len(small))
    core.pmap(lambda bf: judge(run, bf[0], bf[1], "small"), small)
    core.pmap(lambda bf: judge(run, bf[0], bf[1], "small+keep"), small)

    n = int((1500 if quick else 40000) * scale)
    cases = []
    rng = run.rng("random")
    skipped = 0
    while len(cases) < n:
        sub = gen_seed(rng)
        body, funcs, g = build_case(sub, rng.choice([3, 4, 5]), rng.choice([12, 25, 40]))
        reg = in_known_region(body, funcs)
        if reg:
            skipped += 1
            run.count("skipped_region:" + reg)
            continue
        cases.append((body, funcs))
    core.pmap(lambda ibf: judge(run, ibf[1][0], ibf[1][1], "random+keep" if ibf[0] % 2 else "random"), list(enumerate(cases)))
    run.sample({"script": gen_prog.render_program(cases[0][1], cases[0][0])})
    run.sample({"script": gen_prog.render_program(small[0][1], small[0][0])})
    run.extra["programs"] = run.evaluations


def gen_seed(rng):
    import random
    return random.Random(rng.getrandbits(64))


def replay(path):
    with open(path) as f:
        rp = json.load(f)
    rb, rr = diffrun.run_both(rp["script"], mode=rp.get("mode", "file"))
    ob, orf = diffrun.observe(rb), diffrun.observe(rr)
    print(json.dumps({"brush": diffrun.describe(ob), "bash": diffrun.describe(orf),
                      "first_diff": diffrun.first_diff(ob, orf), "brush_stderr": core.txt(rb.err[-800:])}, indent=1))
    if ob != orf or core.crash_kind(rb):
        print("VIOLATION property=C02 replay=%s" % path)
        return 1
    return 0
