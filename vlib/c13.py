"""C13 — shell-quoted output re-reads to the original values.

Definitional oracle: values are injected through the environment; brush produces quoted text with each producer
(printf %q, ${v@Q}, ${v@A}, declare -p for scalars / indexed / associative (key and value), `set`, export -p, the
`set -x` trace, alias, trap -p); the text is written to files and then given back to `eval` by brush and by bash; what
the reader ends up with (argdump of the value / key) must be byte-identical to what went in.
alias and trap -p are judged through the reader's own printing of the directly-set value (same reader, same printer).
"""
import itertools
import json
import os

from . import core

ALPHABET = ["'", '"', "\\", "$", "`", "!", " ", "\t", "\n", "\r", "\x01", "\x7f", "é", "🚀", "-", "~", "#", "=", "*", "?", "[", "{",
            ";", "&", "|", "<", ">", "(", ")", "a", "]", "@", "}", "0"]
BATCH = 30
ATTR_FLAGS = ["-l", "-u", "-x", "-lx", "-r"]
WORD_PRODUCERS = ["q", "Q", "xtrace", "arrQ", "arrQe", "arrQa", "posQ"]          # re-read in word position: eval "set -- $text"
ASSIGN_PRODUCERS = ["A", "declp", "declpx", "setlist", "exportp"]      # eval "$text" recreates variable x
ARRAY_PRODUCERS = ["declpa", "declpA", "arrK"]
OTHER = ["alias", "trap"]


def producer_script(n):
    s = ["mkdir -p T", "PS4='+ '"]
    for i in range(n):
        v = "V%d" % i
        s.append('x=$%s' % v)
        s.append('printf %%q "$x" > T/%d.q' % i)
        s.append('printf %%s "${x@Q}" > T/%d.Q' % i)
        s.append('printf %%s "${x@A}" > T/%d.A' % i)
        s.append('declare -p x > T/%d.declp' % i)
        s.append('( export x; declare -p x > T/%d.declpx; export -p | grep -a "^declare -x x=" > T/%d.exportp0; export -p > T/%d.exportp )' % (i, i, i))
        s.append('set > T/%d.setlist' % i)
        s.append('( set -x; : "$x" ) 2> T/%d.xtrace' % i)
        s.append('a=("$x" "p q" "$x"); declare -p a > T/%d.declpa' % i)
        s.append('printf %%s "${a[*]@Q}" > T/%d.arrQ' % i)
        # lists with empty elements: each element, the empty ones included, must come back as one word
        s.append('b=("" "$x" ""); printf %%s "${b[*]@Q}" > T/%d.arrQe; printf "%%s " "${b[@]@Q}" > T/%d.arrQa' % (i, i))
        s.append('( set -- "$x" "" "p q"; printf %%s "${*@Q}" > T/%d.posQ )' % i)
        s.append('if [ -n "$x" ]; then declare -A m=(); m["$x"]="$x"; declare -p m > T/%d.declpA; printf %%s "${m[@]@K}" > T/%d.arrK; unset m; fi' % (i, i))
        # attributes: what `declare -p` / ${v@A} print must recreate the attribute set too (observed through ${v@a})
        for k, fl in enumerate(ATTR_FLAGS):
            s.append('( declare %s at=$x; declare -p at > T/%d.attrp%d; printf %%s "${at@A}" > T/%d.attrA%d; printf %%s "$at" > T/%d.attrv%d ) 2>/dev/null' % (fl, i, k, i, k, i, k))
        s.append('alias nm="$x"; alias nm > T/%d.alias; unalias nm' % i)
        s.append('trap -- "$x" USR1; trap -p USR1 > T/%d.trap; trap - USR1' % i)
    return "\n".join(s) + "\n"


def reader_script(n):
    s = ['rd() { t=$(cat "$1"; echo x); t=${t%x}; }']
    for i in range(n):
        for p in ("q", "Q"):
            s.append('rd T/%d.%s; eval "set -- $t"; argdump -t %s.%d -- "$@"' % (i, p, p, i))
        s.append('rd T/%d.arrQ; eval "set -- $t"; argdump -t arrQ.%d -- "$@"' % (i, i))
        for p in ("arrQe", "arrQa", "posQ"):
            s.append('rd T/%d.%s; eval "set -- $t"; argdump -t %s.%d -- "$@"' % (i, p, p, i))
        # xtrace: first line that starts with "+ : " up to the end of that trace entry (may span lines)
        s.append('rd T/%d.xtrace; t=${t#*+ : }; t=${t%%$\'\\n\'}; eval "set -- $t"; argdump -t xtrace.%d -- "$@"' % (i, i))
        for p in ("A", "declp", "declpx"):
            s.append('unset x; rd T/%d.%s; eval "$t"; argdump -t %s.%d -- "${x-UNSET}"' % (i, p, p, i))
        s.append('unset x; rd T/%d.exportp; ( eval "$t" 2>/dev/null; argdump -t exportp.%d -- "${x-UNSET}" )' % (i, i))
        for k in range(len(ATTR_FLAGS)):
            for pr in ("attrp", "attrA"):
                # the reader's own attribute letters in one canonical order (bash prints `xl`, brush `lx`), and whether the value came back
                s.append('( rd T/%d.attrv%d; o=$t; rd T/%d.%s%d; eval "$t" 2>/dev/null; n=; for c in a A i l n r t u x; do case ${at@a} in *$c*) n+=$c;; esac; done; '
                         'if [ "${at-UNSET}" = "$o" ]; then argdump -t %s%d.%d -- "$n" valsame; else argdump -t %s%d.%d -- "$n" valdiff "${at-UNSET}"; fi )'
                         % (i, k, i, pr, k, pr, k, i, pr, k, i))
        s.append('unset a; rd T/%d.declpa; eval "$t"; argdump -t declpa.%d -- "${a[@]}"' % (i, i))
        s.append('if [ -f T/%d.declpA ]; then unset m; rd T/%d.declpA; eval "$t"; argdump -t declpA.%d -- "${!m[@]}" "${m[@]}"; '
                 'unset m; declare -A m; rd T/%d.arrK; eval "m=($t)"; argdump -t arrK.%d -- "${!m[@]}" "${m[@]}"; fi' % (i, i, i, i, i))
        # alias / trap: the reader's own printer applied to (a) the re-read definition and (b) the value set directly
        s.append('unalias -a; rd T/%d.alias; eval "$t"; alias nm > R.a1 2>&1; unalias -a; alias nm="$V%d"; alias nm > R.a2 2>&1; '
                 'if cmp -s R.a1 R.a2; then argdump -t alias.%d -- same; else argdump -t alias.%d -- differ; fi; unalias -a' % (i, i, i, i))
        s.append('trap - USR1; rd T/%d.trap; eval "$t"; trap -p USR1 > R.t1 2>&1; trap - USR1; trap -- "$V%d" USR1; trap -p USR1 > R.t2 2>&1; '
                 'if cmp -s R.t1 R.t2; then argdump -t trap.%d -- same; else argdump -t trap.%d -- differ; fi; trap - USR1' % (i, i, i, i))
    return "\n".join(s) + "\n"


def setlist_reader(n):
    """`set` output is re-read by evaluating only the x=... entry (the rest are shell internals / readonly variables)."""
    s = ['rd() { t=$(cat "$1"; echo x); t=${t%x}; }']
    for i in range(n):
        s.append('unset x; eval "$(awk \'/^x=/{p=1} p{print} p&&/^[A-Za-z_][A-Za-z0-9_]*=/&&!/^x=/{exit}\' T/%d.setlist | awk \'NR==1||!/^[A-Za-z_][A-Za-z0-9_]*=/\')"; '
                 'argdump -t setlist.%d -- "${x-UNSET}"' % (i, i))
    return "\n".join(s) + "\n"


def all_values(maxlen):
    vals = []
    for n in range(1, maxlen + 1):
        for t in itertools.product(ALPHABET, repeat=n):
            vals.append("".join(t).encode("utf-8"))
    return vals


def parse(out):
    obs = {}
    for line in out.split(b"\n"):
        if line.startswith(b"@A"):
            parts = line.split(b" ")
            tag = parts[0][2:].decode()
            try:
                n = int(parts[1])
            except (ValueError, IndexError):
                continue
            obs[tag] = [b"" if h == b"-" else bytes.fromhex(h.decode()) for h in parts[2:]]
    return obs


def expected(prod, v):
    if prod in ("q", "Q", "xtrace", "A", "declp", "declpx", "setlist", "exportp"):
        return [v]
    if prod == "arrQ":
        return [v, b"p q", v]
    if prod in ("arrQe", "arrQa"):
        return [b"", v, b""]
    if prod == "posQ":
        return [v, b"", b"p q"]
    if prod == "declpa":
        return [v, b"p q", v]
    if prod in ("declpA", "arrK"):
        return [v, v]
    if prod in ("alias", "trap"):
        return [b"same"]
    if prod.startswith(("attrp", "attrA")):
        fl = ATTR_FLAGS[int(prod[5:])].lstrip("-")
        return ["".join(c for c in "aAilnrtux" if c in fl).encode(), b"valsame"]
    raise ValueError(prod)


ALL_PRODUCERS = (["q", "Q", "arrQ", "arrQe", "arrQa", "posQ", "xtrace", "A", "declp", "declpx", "setlist", "exportp", "declpa", "declpA", "arrK", "alias", "trap"]
                 + ["attrp%d" % k for k in range(len(ATTR_FLAGS))] + ["attrA%d" % k for k in range(len(ATTR_FLAGS))])


def run_batch(values):
    d = core.new_scratch("q13")
    env = {("V%d" % i).encode(): v for i, v in enumerate(values)}
    base = {k.encode(): val.encode() for k, val in core.base_env(d).items()}
    base.update(env)
    with open(os.path.join(d, "prod.sh"), "w") as f:
        f.write(producer_script(len(values)))
    with open(os.path.join(d, "read.sh"), "w") as f:
        f.write(reader_script(len(values)))
    with open(os.path.join(d, "read2.sh"), "w") as f:
        f.write(setlist_reader(len(values)))
    rp = core.run_proc(core.shell_argv("brush") + ["./prod.sh"], d, base, timeout=120)
    res = {}
    for reader in ("brush", "bash"):
        r = core.run_proc(core.shell_argv(reader) + ["./read.sh"], d, base, timeout=120)
        o = parse(r.out)
        r2 = core.run_proc(core.shell_argv(reader) + ["./read2.sh"], d, base, timeout=120)
        o.update(parse(r2.out))
        res[reader] = (o, r)
    texts = {}
    return d, rp, res


def judge_batch(run, values, single=False):
    d, rp, res = run_batch(values)
    ckp = core.crash_kind(rp)
    bad = []
    for i, v in enumerate(values):
        for prod in ALL_PRODUCERS:
            if prod in ("declpA", "arrK") and v == b"":
                continue
            for reader in ("brush", "bash"):
                run.evaluations += 1
                got = res[reader][0].get("%s.%d" % (prod, i))
                want = expected(prod, v)
                if got == want:
                    continue
                kf = known_finding(run, prod, v)
                if kf:
                    run.findings.report(kf)
                    run.count("known:" + kf["id"])
                    continue
                bad.append((i, prod, reader, got, want))
    if not bad and not ckp:
        for v in values:
            run.note_nontrivial(v)
        core.rmtree(d)
        return
    if not single and len(values) > 1:
        core.rmtree(d)
        seen = set()
        for (i, prod, reader, got, want) in bad:
            if i in seen:
                continue
            seen.add(i)
            judge_batch(run, [values[i]], single=True)
        if ckp and not bad:
            run.violation("C13|producer-crash|" + ckp, {"kind": "crash", "stderr": core.txt(rp.err[-500:])})
        return
    # single value: report per (producer, reader)
    v = values[0]
    for (i, prod, reader, got, want) in bad:
        text = b""
        try:
            with open(os.path.join(d, "T", "0.%s" % prod), "rb") as f:
                text = f.read()
        except OSError:
            pass
        cluster = classify(v, prod, text)
        run.violation("C13|%s|%s|%s" % (prod, reader, cluster),
                      {"kind": "roundtrip", "value_hex": v.hex(), "value": v.decode("utf-8", "replace"), "producer": prod, "reader": reader,
                       "produced_text": text.decode("utf-8", "replace")[:400], "got": [g.hex() for g in got] if got is not None else None,
                       "want": [w.hex() for w in want], "producer_stderr": core.txt(rp.err[-300:])})
    core.rmtree(d)


def known_finding(run, prod, v):
    if prod == "trap" and b"'" in v:
        return run.findings.match_signature("trap-p-single-quote")
    if prod == "arrK":
        return run.findings.match_signature("transform-K")
    return None


def classify(v, prod, text):
    s = v.decode("utf-8", "replace")
    lead = s[:1]
    tags = []
    if lead in "~#=-":
        tags.append("lead" + lead)
    if any(c in s for c in "\n\r\x01\x7f\t"):
        tags.append("ctrl")
    if any(c in s for c in "'\"\\$`!"):
        tags.append("quote")
    if any(ord(c) > 127 for c in s):
        tags.append("mb")
    if any(c in s for c in "*?[{;&|<>() "):
        tags.append("meta")
    return "%s:%s" % (prod, "+".join(tags) or "plain")


def run(run):
    quick = run.tier == "quick"
    scale = getattr(run, "scale", 1.0)
    rng = run.rng("c13")
    maxlen = 2 if quick else 3
    run.rule = ("every string up to length %d over a %d-symbol quoting alphabet (quotes, backslash, $, backquote, !, blanks, newline, CR, "
                "control characters - additionally every byte 0x01-0x1f, 0x7f and U+0085 alone and next to a letter, digit, backslash -, multi-byte, leading - ~ # =, glob and operator characters) plus random strings to length 40, as "
                "scalar value, array element, associative key and value, alias body and trap command; 17 producers run by brush, each "
                "text re-read by brush and by bash through eval; recovered bytes must equal the injected bytes. "
                "non-trivial = distinct values whose every producer x reader round trip succeeded" % (maxlen, len(ALPHABET)))
    run.assumptions = ["values contain no NUL", "alias / trap -p are compared through the reader's own printer (definition re-read vs value set directly)",
                       "`set` output is re-read from the x= entry only"]
    vals = [b""] + all_values(maxlen)        # (the empty string is a value too: it must come back as one empty word)
    if not quick:
        rng.shuffle(vals)
        vals = vals[: int(9000 * scale)] + [v for v in all_values(2)]
    for _ in range(int((150 if quick else 3000) * scale)):
        n = rng.randint(3, 40)
        vals.append("".join(rng.choice(ALPHABET) for _ in range(n)).encode("utf-8"))
    # every control character (each has its own spelling inside $'...': \a \b \e \f \v \t \n \r, octal, \cX) alone and next to a
    # letter / digit / itself (a digit after an octal or hex escape must not be swallowed by it)
    for c in list(range(1, 32)) + [127, 0x80 + 0x42]:
        ch = chr(c).encode("utf-8") if c < 128 else "\u0085".encode("utf-8")
        vals += [ch, b"a" + ch, ch + b"0", ch + b"a", ch + ch, ch + b"E", b"\\" + ch]
    batches = [vals[k:k + BATCH] for k in range(0, len(vals), BATCH)]
    run.count("values", len(vals))
    run.max_violations = 30
    core.pmap(lambda b: judge_batch(run, b), batches)
    run.sample({"value": "a'b", "producers": ALL_PRODUCERS, "readers": ["brush", "bash"]})
    run.sample({"producer_script_for_one_value": producer_script(1)})


def replay(path):
    with open(path) as f:
        rp = json.load(f)
    v = bytes.fromhex(rp["value_hex"])
    d, rpp, res = run_batch([v])
    bad = []
    for prod in ALL_PRODUCERS:
        for reader in ("brush", "bash"):
            got = res[reader][0].get("%s.0" % prod)
            if got != expected(prod, v) and not (prod in ("declpA", "arrK") and v == b""):
                bad.append((prod, reader, [g.hex() for g in got] if got else None))
    print(json.dumps({"value": rp["value"], "failing": bad}, indent=1))
    core.rmtree(d)
    if bad:
        print("VIOLATION property=C13 replay=%s" % path)
        return 1
    return 0
