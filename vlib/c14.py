"""C14 — printed function definitions re-parse to the same function.

Monitors: (process level) for each generated function body: P1 = `declare -f f` in brush; (a) fixed point: a fresh brush
that evals P1 prints P2 == P1 (also via `type f`); (b) second reader: bash must accept P1; (c) behaviour: the function
re-imported from P1 in brush, in bash, and through `export -f` into a child brush and a child bash must produce the same
marker trace, file effects and status as the original definition run in brush; (in-process) for generated programs
parse(print(parse(src))) must equal parse(src) as serde JSON with locations erased, and print must be a fixed point.
"""
import json
import os
import random

from . import core, diffrun, gen_prog, inproc

PRE = 'e() { echo "@m $1"; return $2; }\n'

STMTS = [
    "e a 0 > out.f 2>&1",
    "e a 1 >> out.f 2> err.f < /dev/null",
    "{ e g1 0; e g2 3; } > out.f 2> err.f",
    "{ e g1 0; } 2>&1 > out.f",
    "while e c 1; do e b 0; done < /dev/null > out.f",
    "cat <<< \"here string $x\"",
    "cat <(e ps 0) > /dev/null",
    # (the consumer signals when it is done: a fixed sleep is not enough on a loaded machine, and the file it writes is its own)
    "rm -f po.done; e po 0 > >(cat > po.f; : > po.done); k=0; while [ ! -f po.done ] && [ $k -lt 400 ]; do msleep 10; k=$((k+1)); done",
    "case x in a|b) e c1 0;; x) e c2 0;& y) e c3 1;;& *) e c4 0;; esac",
    "case $1 in p*) e cp 0 ;; *) e cn 1 ;; esac",
    "! e n 1",
    "! e n1 0 | e n2 0",
    "e p1 0 | cat | cat",
    "e bg 0 & wait",
    "{ e bgl 0 & }; wait",
    "if e c 0; then e tbg 0 & fi; wait",
    "for q in 1 2; do e lbg $q & done; wait",
    "( e sbg 0 & ); msleep 30",
    "e last 0 & wait; e afterbg 0 &\nwait",
    "g() { e ing 0; }; g",
    "g() { h() { e inh 2; }; h; }; g",
    "(( x = 1 + 2 )); echo \"@x $x\"",
    "(( x > 5 )) || e arith 0",
    "[[ -n $x && $x == 3 || -z $y ]] && e dbl 0",
    "[[ $1 =~ ^p([0-9]+)$ ]]; echo \"@re ${BASH_REMATCH[1]}\"",
    "[[ ! -e /nonexistent && ( a < b ) ]] && e dbl2 0",
    "for ((i=0; i<2; i++)); do e l $i; done",
    "for y; do e fy 0; echo \"@y $y\"; done",
    "for y in a \"b c\" $1; do echo \"@y $y\"; done",
    "if e c 0; then e t 0; elif e c2 1; then e t2 0; else e el 0; fi",
    "if e c 1; then e t 0; elif e c2 1; then e t2 0; else e el 4; fi",
    "until e u 0; do :; done",
    "i=0; while (( i < 2 )); do i=$((i+1)); e w $i; done",
    "v=$(e s 0; echo captured); echo \"@v $v\"",
    "v=`e bq 0`; echo \"@v $v\"",
    "local l=1 m; echo \"@l $l\"",
    "echo \"@q $1 ${2:-dflt} ${#1} $(( 1 + 2 )) $'t\\tq' 'sq' \\$esc\"",
    "x=1 y=2 e pre 0",
    "e a 0 && e b 1 || e c 0; e d 0",
    "{ e a 0; e b 0; }",
    "( e a 0; exit 4 ); echo \"@? $?\"",
    "time e t 0 2>/dev/null",
    "e a 0 3> fd3.f 4>&1 2>&4",
    "exec 5> out5.f; e x5 0 >&5; exec 5>&-",
    "return 5",
    "e semi 0; e semi2 0;",
    "echo \"@glob\" *.nomatch [a]",
    "arr=(p \"q r\" [5]=s); echo \"@arr ${arr[@]} ${#arr[@]} ${!arr[@]}\"",
    "declare -A m=([k]=v); echo \"@m ${m[k]}\"",
    ": ${x:=dflt}; echo \"@x $x ${x//d/D} ${x^^}\"",
    "select_like=1; while read -r ln; do echo \"@ln $ln\"; done <<< $'r1\\nr2'",
]

# every duplicating / closing / file redirection operator with every explicit descriptor, including the ones that equal or contradict
# the operator's default (`1<&3` is not `<&3`, `0>&3` is not `>&3`): the printed form must keep exactly the written descriptor
for _fd in ["", "0", "1", "2", "4"]:
    for _op in ["<&", ">&"]:
        STMTS.append("exec 3> r3.f; e rd%s 0 %s%s3; exec 3>&-; cat r3.f" % (_fd, _fd, _op))
        STMTS.append("e rc%s 0 %s%s- 2>/dev/null; echo \"@? $?\"" % (_fd, _fd, _op))
for _fd in ["", "1", "2", "3"]:
    for _op in [">", ">>", ">|"]:
        STMTS.append("e rf%s 0 %s%s rf.f; cat rf.f" % (_fd, _fd, _op))
STMTS += ["echo data > in.f; cat < in.f; cat 0< in.f; cat 4< in.f <&4", "echo rw > rw.f; cat <> rw.f; cat 0<> rw.f", "e ao 0 &> ao.f; e ap 0 &>> ao.f; cat ao.f",
          "cat 0<<< \"y $x\"; read -r -u 4 l 4<<< \"z\"; echo \"@l $l\"", "e hs 0 3<<< x 2>&1 1>&2", "exec 6< /dev/null 7>&1; e x7 0 >&7 <&6; exec 6<&- 7>&-"]


def gen_body(rng):
    n = rng.randint(1, 4)
    parts = []
    form = rng.choice(["brace", "brace", "brace", "subshell", "brace_redir", "brace_redir2", "brace_redir_arg", "brace_herestr_arg"])
    for _ in range(n):
        if rng.random() < 0.75:
            parts.append(rng.choice(STMTS))
        else:
            from . import c02
            for _ in range(50):
                g = gen_prog.Gen(random.Random(rng.getrandbits(64)), max_depth=3, max_nodes=12, avoid={"ctl_outside", "level_beyond"}, funcs=False)
                t = g.seq(0, {"in_func": True}, 2)
                if not c02.in_known_region(t, {}, body_in_subshell=(form == "subshell")):        # open C02 findings: behaviour differs from bash however the function got defined
                    break
            parts.append(gen_prog.render(t, probes=False))
    body = "\n".join(parts)
    if form == "brace":
        return "f() {\n%s\n}" % body
    if form == "subshell":
        return "f() (\n%s\n)" % body
    if form == "brace_redir_arg":
        # redirections on the definition are expanded when the function is called, with the function's own arguments
        return "f() {\n%s\n} > \"fbody.$1\"" % body
    if form == "brace_herestr_arg":
        return "f() {\ncat\n%s\n} <<< \"hs $1 $#\"" % body
    if form == "brace_redir":
        return "f() {\n%s\n} > fbody.f" % body
    return "f() {\n%s\n} >> fbody.f 2>&1 < /dev/null" % body


TRACE = ('f p1 "a b"\necho "@rc $?"\nwait\nfor o in out.f err.f fbody.f fbody.p1 fd3.f out5.f po.f; do [ -f $o ] && { echo "@file $o"; cat $o; }; done\necho "@end"\n')


def run_in(shell, script, extra_env=None):
    d = core.new_scratch("f14")
    r = core.run_shell(shell, script, d, env_extra=extra_env, timeout=30)
    core.rmtree(d)
    return r


def hazards(defn):
    """Open finding C02-F6: a `case` inside `( )` is printed as `( case ...` on one line, which brush's tokenizer cannot read
    back (the same defect C02 fences); definitions with a case inside a subshell are therefore skipped here."""
    import re
    has_subshell = defn.startswith("f() (") or re.search(r"(^|[\s;&|!(])\(\s*\n", defn) is not None or "$(" in defn
    if "case " in defn and has_subshell:
        return "case-inside-subshell"
    # open finding C02-F7: break/continue inside a subshell inside a loop behaves differently from bash whichever way the function
    # was defined - not a printing matter
    if has_subshell and re.search(r"\b(break|continue)\b", defn):
        return "break-continue-inside-subshell"
    import re
    if re.search(r"\(\s*\(", defn.replace("((", "  ").replace("$(", "  ")):
        return "nested-subshell-open"          # open finding C02-F5: printed `( ( ...` is read back as an arithmetic command
    return None


def judge(run, defn):
    hz = hazards(defn)
    if hz:
        run.count("skipped_region:" + hz)
        return
    # 1. original definition in brush: print + run
    d = core.new_scratch("p14")
    p1_path = os.path.join(d, "P1")
    r0 = core.run_shell("brush", PRE + defn + "\ndeclare -f f > P1\ntype f > TY\n" + TRACE, d, timeout=30)
    run.evaluations += 1
    try:
        with open(p1_path) as fh:
            p1 = fh.read()
        with open(os.path.join(d, "TY")) as fh:
            ty = fh.read()
    except OSError:
        p1 = ty = None
    core.rmtree(d)
    o0 = diffrun.observe(r0)
    ck = core.crash_kind(r0)
    if ck:
        run.violation("C14|crash|" + ck, {"kind": "crash", "definition": defn, "stderr": core.txt(r0.err[-400:])})
        return
    if not p1 or r0.timed_out or not o0[0] or o0[0][-1] != "@end":
        run.count("definition_not_accepted_or_did_not_finish")
        return
    bad = []
    # (a) fixed point in a fresh brush
    r1 = run_in("brush", PRE + 'eval "$(cat P1.in)"\ndeclare -f f\n'.replace("P1.in", "/dev/stdin") if False else PRE + "eval \"$P1\"\ndeclare -f f\n", {"P1": p1})
    p2 = r1.out.decode("utf-8", "replace")
    if p2 != p1:
        bad.append(("print-not-a-fixed-point", "P1=%r P2=%r" % (p1[-300:], p2[-300:])))
    ty_body = ty.split("\n", 1)[1] if ty and "\n" in ty else ""
    if ty_body != p1:
        bad.append(("type-differs-from-declare-f", "type=%r" % ty_body[-200:]))
    # (b)+(c) behaviour of the re-imported function
    readers = [("brush-eval", "brush", PRE + "eval \"$P1\"\n" + TRACE, {"P1": p1}),
               ("bash-eval", "bash", PRE + "eval \"$P1\"\n" + TRACE, {"P1": p1}),
               ("brush-export-to-brush", "brush", PRE + defn + "\nexport -f f e\n" + core.BRUSH + " " + " ".join(core.BRUSH_ARGS) + " -c '" +
                TRACE.replace("'", "'\\''") + "'\n", None),
               ("brush-export-to-bash", "brush", PRE + defn + "\nexport -f f e\n" + core.BASH + " --norc --noprofile -c '" +
                TRACE.replace("'", "'\\''") + "'\n", None)]
    for name, sh, script, env in readers:
        r = run_in(sh, script, env)
        o = diffrun.observe(r)
        if o != o0:
            detail = diffrun.first_diff(o, o0)
            if name == "bash-eval" and (b"syntax error" in r.err):
                bad.append(("bash-rejects-printed-text", core.txt(r.err[-200:])))
            else:
                bad.append((name + "-behaves-differently", detail))
    if not bad:
        run.note_nontrivial(defn)
        run.count("definitions_ok")
        for st in STMTS:
            if st in defn:
                run.stmts_seen.add(st)
        return
    kinds = sorted(set(b[0] for b in bad))
    first_stmt = next((s for s in STMTS if s in defn), defn.split("\n")[1][:40] if "\n" in defn else defn[:40])
    sig = "C14|%s|%s" % (",".join(kinds)[:80], first_stmt[:40])
    run.violation(sig, {"kind": "function", "definition": defn, "printed": p1, "failures": bad})


def inproc_layer(run, quick, scale):
    rng = run.rng("ast")
    progs = []
    n = int((1500 if quick else 60000) * scale)
    for _ in range(n):
        sub = random.Random(rng.getrandbits(64))
        r = sub.random()
        # one function definition per program: what is printed is a definition, as `declare -f` does (whole-program
        # printing is not something the shell exposes)
        if r < 0.5:
            d = gen_body(sub)
        else:
            g = gen_prog.Gen(sub, max_depth=4, max_nodes=25, funcs=False)
            body = g.seq(0, {"in_func": True}, 3)
            d = "f() {\n%s\n}" % gen_prog.render(body, probes=False)
        if hazards(d):
            continue
        progs.append(d)
    d = core.new_scratch("a14")
    path = os.path.join(d, "progs.hex")
    inproc.write_hex(path, progs)
    res = inproc.run_harness(["parse-roundtrip", "--file", path])
    if "programs" not in res:
        raise core.Inconclusive("vharness parse-roundtrip failed: %s" % json.dumps(res)[:400])
    run.evaluations += res["programs"]
    run.count("ast_roundtrip_accepted", res["accepted"])
    run.count("ast_roundtrip_rejected_by_parser", res["rejected"])
    for v in res["violations"]:
        what = v["what"]
        kf = None
        sig = "C14|ast|%s" % what.split(":")[0][:60]
        run.violation(sig, {"kind": "ast", "src": v["src"], "what": what})


def run(run):
    quick = run.tier == "quick"
    scale = getattr(run, "scale", 1.0)
    rng = run.rng("c14")
    run.stmts_seen = set()
    run.rule = ("function definitions built from %d statement templates (every redirect kind on simple and compound commands and on the "
                "function body, here-strings, process substitutions, case items with all terminators, !/time pipelines, & lists incl. a "
                "trailing &, nested definitions, (( )), [[ ]] with all operator kinds, for ((;;)), for without `in`, subshell bodies) mixed "
                "with grammar-generated control flow; each checked for print fixed point, acceptance by bash, and equal behaviour after "
                "re-import by eval in brush and bash and through export -f into child brush / child bash; plus in-process "
                "parse-print-parse AST equality on generated programs. non-trivial = distinct definitions that passed every reader"
                % len(STMTS))
    run.assumptions = ["bash's own printing is not compared textually (it keeps arithmetic text verbatim); behaviour is",
                       "here-documents and multi-line quoted strings inside functions are an open finding (C14-F1: re-indented on print) and not generated"]
    diffrun.run_canaries(run, prelude=PRE)
    defs = ["f() {\n%s\n}" % s for s in STMTS]
    defs += ["f() {\n%s\n} > fbody.f" % s for s in STMTS[::3]]
    n = int((150 if quick else 8000) * scale)
    for _ in range(n):
        defs.append(gen_body(random.Random(rng.getrandbits(64))))
    run.count("definitions", len(defs))
    run.max_violations = 30
    core.pmap(lambda dfn: judge(run, dfn), defs)
    inproc_layer(run, quick, scale)
    run.extra["statement_templates_exercised"] = len(run.stmts_seen)
    run.sample({"definition": defs[-1]})


def replay(path):
    with open(path) as f:
        rp = json.load(f)
    if rp.get("kind") != "function":
        return 0
    r = core.Run("C14", "quick", 0)
    r.stmts_seen = set()
    judge(r, rp["definition"])
    return 1 if r.violations else 0
