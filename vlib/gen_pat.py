"""Shell pattern generator and a small reference matcher (POSIX/bash glob semantics, extglob optional).

The matcher is the *second* reference (bash is the first): it is validated against bash on the exhaustive small space by
C08 in every run, and used for triage and for C06's shortest/longest-match clause.
"""
import itertools
import re

CLASSES = ["alpha", "digit", "alnum", "upper", "lower", "space", "punct", "xdigit", "blank"]
_CLASS_RE = {
    # C.utf8 locale: letters include non-ASCII ones
    "alpha": "a-zA-Z\u00aa-\u024f", "digit": "0-9", "alnum": "a-zA-Z0-9\u00aa-\u024f", "upper": "A-Z\u00c0-\u00de", "lower": "a-z\u00df-\u00ff",
    "space": r" \t\n\r\f\v",
    "punct": re.escape("!\"#$%&'()*+,-./:;<=>?@[\\]^_`{|}~"), "xdigit": "0-9A-Fa-f", "blank": r" \t",
}


class BadPattern(Exception):
    pass


def _bracket(p, i):
    """Parse a bracket expression starting at p[i] == '['. Returns (regex, next_index) or None if it is not one."""
    j = i + 1
    neg = False
    if j < len(p) and p[j] in "!^":
        neg = True
        j += 1
    items = []
    first = True
    while j < len(p):
        c = p[j]
        if c == "]" and not first:
            body = "".join(items)
            return ("[%s%s]" % ("^" if neg else "", body), j + 1)
        first = False
        if c == "[" and j + 1 < len(p) and p[j + 1] == ":":
            end = p.find(":]", j + 2)
            if end != -1 and p[j + 2:end] in _CLASS_RE:
                items.append(_CLASS_RE[p[j + 2:end]])
                j = end + 2
                continue
        if c == "\\" and j + 1 < len(p):
            items.append(re.escape(p[j + 1]))
            j += 2
            continue
        # range?
        if j + 2 < len(p) and p[j + 1] == "-" and p[j + 2] != "]":
            lo, hi = c, p[j + 2]
            if hi == "\\" and j + 3 < len(p):
                hi = p[j + 3]
                j += 1
            if ord(lo) > ord(hi):
                # invalid range: bash treats the bracket expression as matching nothing reasonable; signal ambiguity
                raise BadPattern("reversed range")
            items.append("%s-%s" % (re.escape(lo), re.escape(hi)))
            j += 3
            continue
        items.append(re.escape(c))
        j += 1
    return None


def to_regex(p, extglob=False):
    """Translate a shell pattern to a Python regex string (without anchors)."""
    out = []
    i = 0
    n = len(p)
    while i < n:
        c = p[i]
        if extglob and c in "?*+@!" and i + 1 < n and p[i + 1] == "(":
            # find matching paren
            depth = 0
            j = i + 1
            while j < n:
                if p[j] == "\\":
                    j += 2
                    continue
                if p[j] == "(":
                    depth += 1
                elif p[j] == ")":
                    depth -= 1
                    if depth == 0:
                        break
                j += 1
            if j < n:
                inner = p[i + 2:j]
                alts = _split_alts(inner)
                sub = "|".join(to_regex(a, extglob) for a in alts)
                if c == "?":
                    out.append("(?:%s)?" % sub)
                elif c == "*":
                    out.append("(?:%s)*" % sub)
                elif c == "+":
                    out.append("(?:%s)+" % sub)
                elif c == "@":
                    out.append("(?:%s)" % sub)
                else:
                    rest = to_regex(p[j + 1:], extglob)
                    # !(x)rest : anything that, followed by rest, is not x followed by rest
                    out.append("(?:(?!(?:%s)(?:%s)\\Z).*?)" % (sub, rest))
                i = j + 1
                continue
        if c == "*":
            out.append(".*")
        elif c == "?":
            out.append(".")
        elif c == "[":
            r = _bracket(p, i)
            if r is None:
                out.append(re.escape("["))
            else:
                out.append(r[0])
                i = r[1]
                continue
        elif c == "\\":
            if i + 1 < n:
                out.append(re.escape(p[i + 1]))
                i += 2
                continue
            out.append(re.escape("\\"))
        else:
            out.append(re.escape(c))
        i += 1
    return "".join(out)


def _split_alts(s):
    parts = []
    depth = 0
    cur = ""
    i = 0
    while i < len(s):
        c = s[i]
        if c == "\\" and i + 1 < len(s):
            cur += s[i:i + 2]
            i += 2
            continue
        if c == "(":
            depth += 1
        elif c == ")":
            depth -= 1
        if c == "|" and depth == 0:
            parts.append(cur)
            cur = ""
        else:
            cur += c
        i += 1
    parts.append(cur)
    return parts


_cache = {}


def matches(p, s, extglob=False, nocase=False):
    key = (p, extglob, nocase)
    rx = _cache.get(key)
    if rx is None:
        flags = re.S | (re.I if nocase else 0)
        rx = re.compile(r"\A(?:" + to_regex(p, extglob) + r")\Z", flags)
        if len(_cache) < 20000:
            _cache[key] = rx
    return rx.match(s) is not None


def remove_prefix(v, p, longest, extglob=False):
    rng = range(len(v), -1, -1) if longest else range(0, len(v) + 1)
    for k in rng:
        if matches(p, v[:k], extglob):
            return v[k:]
    return v


def remove_suffix(v, p, longest, extglob=False):
    rng = range(0, len(v) + 1) if longest else range(len(v), -1, -1)
    for k in rng:
        if matches(p, v[k:], extglob):
            return v[:k]
    return v


# ---- generation -------------------------------------------------------------------------------------------

PAT_ALPHA = ["a", "b", "*", "?", "[", "]", "!", "^", "-", "\\"]
EXT_ALPHA = PAT_ALPHA + ["(", ")", "|", "@", "+"]
STR_ALPHA = ["a", "b", "]", "-", "\n", "A"]


def all_patterns(maxlen, ext=False):
    alpha = EXT_ALPHA if ext else PAT_ALPHA
    for n in range(0, maxlen + 1):
        for t in itertools.product(alpha, repeat=n):
            yield "".join(t)


def all_strings(maxlen, alpha=None):
    alpha = alpha or STR_ALPHA
    for n in range(0, maxlen + 1):
        for t in itertools.product(alpha, repeat=n):
            yield "".join(t)


def random_pattern(rng, ext=False, maxpieces=5, chars="abAB.-_ "):
    pieces = []
    for _ in range(rng.randint(1, maxpieces)):
        k = rng.random()
        if k < 0.3:
            pieces.append(rng.choice(chars))
        elif k < 0.45:
            pieces.append("*")
        elif k < 0.55:
            pieces.append("?")
        elif k < 0.75:
            body = "".join(rng.choice(["a", "b", "a-c", "A-Z", "0-9", "[:alpha:]", "[:digit:]", "[:space:]", ".", "_", "\\]", "-"])
                           for _ in range(rng.randint(1, 3)))
            neg = rng.choice(["", "", "!", "^"])
            lead = rng.choice(["", "", "]"])
            pieces.append("[" + neg + lead + body + "]")
        elif k < 0.85:
            pieces.append("\\" + rng.choice("*?[ab\\"))
        elif ext:
            op = rng.choice("?*+@!")
            # alternatives that can match the empty string under + or * are degenerate (bash: `+(**)` does not match "")
            alts = "|".join(rng.choice("ab.") + random_pattern(rng, False, 2, chars) for _ in range(rng.randint(1, 3)))
            pieces.append("%s(%s)" % (op, alts))
        else:
            pieces.append(rng.choice(chars))
    return "".join(pieces)
