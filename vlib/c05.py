"""C05 — unquoted words expand to the same argument lists as in bash.

Monitor: batched differential runs: words built from a grammar of pieces (literals, quotes, $v, $@/$*, arrays, command
and arithmetic substitution, braces, tildes, glob characters, defaults/alternates with nested words) are expanded by the
real brush and by bash in identical directory trees, under IFS in {unset, default, space, newline, empty}; the argument
list an external process receives (count, order, bytes) and `$#` after `set -- WORD` must agree.
"""
import itertools
import json
import os
import random

from . import batch, core
from .c06 import sq

VALUES = [None, "", "x", " x ", "a b", "a  b ", "*", "a*", "[x]", "~", "{a,b}", "-n", "a\nb", "\tq"]
IFS_MODES = [("unset", "unset IFS"), ("default", "IFS=$' \\t\\n'"), ("space", "IFS=' '"), ("newline", "IFS=$'\\n'"), ("empty", "IFS=")]

LIT = ["x", "a", "b\\ c", "*", "?", "[ab]", "a*", ".h*", "sub/*", ".h*/*", ".*/*", "*/*", "s*/.*", "=", "a=b", "-", "\\*", "\\$v", "%"]
QUOTED = ["'q r'", "\"q $v r\"", "\"\"", "''", "\"$v\"", "'*'", "\"*\"", "$'t\\tq'"]
VARS = ["$v", "${v}", "$@", "$*", "\"$@\"", "\"$*\"", "${a[@]}", "${a[*]}", "\"${a[@]}\"", "\"${a[*]}\"", "$1", "${2}", "$#", "${#v}"]
SUBST = ["$(printf 'p q')", "`printf 'p q'`", "$(printf '%s\\n' p q)", "$((1+2))", "$(printf 'a*')", "\"$(printf 'p  q')\"", "$(:)"]
BRACE = ["{a,b}", "{1..3}", "pre{x,y}post", "{a,b}{c,d}", "{a,b,}", "{x}", "{3..1}", "{a..c}",
         # sequences with a step (ascending / descending, step dividing the distance or not, letters and numbers, negative bounds)
         "{f..a..2}", "{h..a..3}", "{a..h..3}", "{a..f..2}", "{z..v..2}", "{10..1..3}", "{1..10..4}", "{-5..5..3}", "{5..-5..4}", "{1..7..-2}", "{g..a..3}",
         "{a,{f..c..2}}", "{1..3}{a..b}", "{c..a}", "{2..2}", "{a..a..3}",
         "{1..10..02}"]         # (zero-padded *bounds* such as {01..10} are open finding C05-F8: the padding is dropped)
TILDE = ["~", "~+", "~/x", "~nosuchuser"]
DEFAULTS = ["${v:-w x}", "${v:+w x}", "${u:-$v}", "${u:-\"w x\"}", "${u:-'w x'}", "${u-*}", "${v:+\"$v\"}", "${u:-{a,b}}", "${u:-~}"]
# pieces used INSIDE one double-quoted string (the quoting state must survive every nested default / alternate word)
DQIN = ["x", " ", "$v", "${u:-x}", "${u:-'y z'}", "${v:+$1}", "${v:+'$1'}", "${u:-\\q}", "${u-\"a b\"}", "${u:-*}", "${u:-$v}",
        "${v:-'n'}", "$(printf 'p q')", "$@", "${a[@]}", "${u:-~}", "\\$", "'", "${u:-\"$v\"}", "${u:+z}", "${u:='s t'}", "${v:+\\'}",
        "${u:-$(printf \"'c d'\")}"]
PIECES = {"lit": LIT, "quoted": QUOTED, "var": VARS, "subst": SUBST, "brace": BRACE, "tilde": TILDE, "default": DEFAULTS}


def make_tree(d):
    for n in ["a", "b", "ab", "a b", ".h", ".hid", "*", "[x]", "x"]:
        with open(os.path.join(d, n), "w") as f:
            f.write("")
    os.mkdir(os.path.join(d, "sub"))
    with open(os.path.join(d, "sub", "x"), "w") as f:
        f.write("")
    with open(os.path.join(d, "sub", ".dot"), "w") as f:
        f.write("")
    os.mkdir(os.path.join(d, ".hd"))
    for n in (".x", "y"):
        with open(os.path.join(d, ".hd", n), "w") as f:
            f.write("")


def setup_text(val, pos, arr, ifs):
    s = []
    s.append("unset v u" if val is None else "unset u; v=%s" % sq(val))
    s.append("set -- %s" % " ".join(sq(p) for p in pos))
    s.append("a=(%s)" % " ".join(sq(p) for p in arr))
    s.append(ifs[1])
    return "\n".join(s)


def join_pieces(pieces):
    """`$v` directly followed by a name character would read a different variable (`$vsub/*` globs the root directory): brace it."""
    out = []
    for k, p in enumerate(pieces):
        nxt = pieces[k + 1] if k + 1 < len(pieces) else ""
        if p.endswith("$v") and nxt[:1] and (nxt[0].isalnum() or nxt[0] == "_"):
            p = p[:-2] + "${v}"
        out.append(p)
    return "".join(out)


def make_case(word, val, pos, arr, ifs, kinds):
    block = "%s\nargdump -t w.{i} -- %s\necho \"@s.{i} $?\"\nset -- %s\necho \"@n.{i} $#\"" % (setup_text(val, pos, arr, ifs), word, word)
    return {"block": block, "word": word, "val": val, "pos": pos, "arr": arr, "ifs": ifs[0], "kinds": kinds}


def region(c):
    """Regions of open findings (canaries in known_findings.json)."""
    w = c["word"]
    if c["ifs"] in ("empty", "newline") and "{" in w and any(k == "brace" for k in c["kinds"]):
        return "brace-rejoin-under-ifs"
    if c["ifs"] in ("empty", "newline") and "${u:-{a,b}}" in w:
        return "brace-rejoin-under-ifs"
    if c["ifs"] == "empty" and ('"$*"' in w or '[*]}"' in w):
        return "star-join-under-empty-ifs"
    has_brace = any(k == "brace" for k in c["kinds"]) or "${u:-{a,b}}" in w
    if has_brace and "~" in w:
        return "tilde-with-brace"
    if "{a,b,}" in w:
        return "brace-empty-alternative"
    if "~-" in w:
        return "tilde-minus"
    if "=" in w and "~" in w:
        return "tilde-after-equals"      # tilde handling after `=` in argument words is bash-version specific; not a listed piece
    return None


def gen_cases(rng, quick, scale):
    cases = []
    # exhaustive: every single piece and every ordered pair of pieces from a reduced list, x value x IFS (rotating)
    flat = [(k, p) for k, ps in PIECES.items() for p in ps]
    combos = [[x] for x in flat] + [[x, y] for x in flat for y in flat]
    if quick:
        rng.shuffle(combos)
        combos = combos[: int(2500 * scale)]
    for n, combo in enumerate(combos):
        word = join_pieces([p for _, p in combo])
        kinds = [k for k, _ in combo]
        val = VALUES[n % len(VALUES)]
        ifs = IFS_MODES[(n // 3) % len(IFS_MODES)]
        pos = [["a", "b c"], [], ["", "x"], ["*"], [" p ", "", "q"]][n % 5]
        arr = [["x", "y z"], [], ["", ""], ["a*", "b"]][n % 4]
        cases.append(make_case(word, val, pos, arr, ifs, kinds))
    # random 3-4 piece words over random environments
    nrand = int((3000 if quick else 120000) * scale)
    for _ in range(nrand):
        combo = [rng.choice(flat) for _ in range(rng.choice([3, 3, 4]))]
        word = join_pieces([p for _, p in combo])
        kinds = [k for k, _ in combo]
        val = rng.choice(VALUES)
        ifs = rng.choice(IFS_MODES)
        pos = [rng.choice([v for v in VALUES if v is not None]) for _ in range(rng.randint(0, 3))]
        arr = [rng.choice([v for v in VALUES if v is not None]) for _ in range(rng.randint(0, 3))]
        cases.append(make_case(word, val, pos, arr, ifs, kinds))
    # double-quoted strings of two (all ordered pairs) and three (random) inner pieces, alone and glued to unquoted text
    dq = [(x, y) for x in DQIN for y in DQIN]
    for n, combo in enumerate(dq + [tuple(rng.choice(DQIN) for _ in range(3)) for _ in range(int((300 if quick else 6000) * scale))]):
        inner = join_pieces(list(combo))
        word = ['"%s"', 'p"%s"', '"%s"$v', '"%s"\'q\''][n % 4] % inner
        val = VALUES[n % len(VALUES)]
        ifs = IFS_MODES[(n // 5) % len(IFS_MODES)]
        pos = [["b c", "d"], [], ["", "x"], ["*"]][n % 4]
        arr = [["x", "y z"], [], ["a*", "b"]][n % 3]
        cases.append(make_case(word, val, pos, arr, ifs, ["dq"]))
    # tilde prefixes whose replacement text contains blanks or glob characters: the result of tilde expansion is never split or globbed
    for hn, home in enumerate(["/x/my home", "$PWD/[ab]", "*", "a b", " x ", "", "$PWD/a*", "/t\tq", "sub/?", "{a,b}", "~"]):
        for wn, w in enumerate(["~", "~/x", "~/*", "~/", "x~", "~$v", "$v~", "~/$v", "\"~\"", "~/'q r'", "pre ~ post", "~:~", "${u:-~}", "${u:-~/x}", "~/[x]"]):
            for ifs in (IFS_MODES if not quick else [IFS_MODES[(hn + wn) % len(IFS_MODES)], IFS_MODES[1]]):
                c = make_case(w, VALUES[(hn + wn) % len(VALUES)], ["a"], ["x"], ifs, ["tildehome"])
                c["block"] = "HOME=\"%s\"\n" % home + c["block"]
                c["home"] = home
                cases.append(c)
    # every value x every IFS x the plain variable forms (the field-splitting core)
    for val in VALUES:
        for ifs in IFS_MODES:
            for w in ["$v", "x$v", "$v$v", "$v'q'", "\"$v\"$v", "${v:-d e}", "$v*", "pre$v/post", "$*", "x$@y", "\"x$@y\"", "$@$@", "${a[@]}$v", "\"$*\"", "\"${a[*]}\"", "x\"$@\"", "\"$@\"x", "${v}${a[*]}",
                      "${@:-d e}", "\"${@:-d e}\"", "a${@:-b c}d", "${@:+y}", "\"${a[@]:-d}\"", "${a[@]:+y z}", "${*:-d}", "${@-d}",
                      # a quoted list that may be empty next to parts that may expand to nothing (no field at all when everything is empty)
                      "\"$@$v\"", "\"${a[@]}$v\"", "\"$@${v:+x}\"", "\"${v:+x}$@\"", "\"$@$(:)\"", "x\"$@$v\"", "\"$@$v\"x", "\"$@$v\"''", "\"$v${a[@]}$v\"", "\"$@$@$v\"",
                      "\"${u:-\"$v\"}$@\""]:
                cases.append(make_case(w, val, ["a", "b c", ""], ["x", "", "y z"], ifs, ["core"]))
                cases.append(make_case(w, val, [], [], ifs, ["core"]))
                cases.append(make_case(w, val, [""], [""], ifs, ["core"]))
                cases.append(make_case(w, val, ["", "p"], ["", "x"], ifs, ["core"]))
    return cases


def run(run):
    quick = run.tier == "quick"
    scale = getattr(run, "scale", 1.0)
    rng = run.rng("c05")
    run.rule = ("words of 1-2 pieces (all ordered pairs over %d pieces; a sample in the quick tier) and random words of 3-4 pieces, "
                "pieces from {literals incl. glob chars, quotes, $v/$@/$*/arrays quoted and not, $( ) ` ` $(( )), braces, tildes, "
                "defaults with nested words}, over v in %d values (unset, empty, blank-padded, multi-field, glob-like, brace-like), "
                "positional lists of 0-3, IFS in {unset, default, space, newline, empty}, in a tree with dot-files and names with spaces; "
                "plus double-quoted strings of 2-3 inner pieces (23 pieces: nested default / alternate / assign words with quotes and backslashes, substitutions, $@, arrays) alone and glued to unquoted text, and tilde prefixes under 11 hostile HOME values (blanks, glob and brace characters, empty) x 15 words; argv of an external command and $# after `set --` compared with bash. "
                "non-trivial = distinct (piece kinds, IFS mode) where the word produced != 1 field or involved a glob/brace"
                % (sum(len(v) for v in PIECES.values()), len(VALUES)))
    run.assumptions = ["bash 5.2.15 under C.utf8 reference", "IFS limited to whitespace sets as the statement says",
                       "brace expansion under IFS=empty/newline is an open finding (C05-F1), skipped and watched by a canary"]
    from . import diffrun
    diffrun.run_canaries(run, prelude="", setup=make_tree)
    cases = gen_cases(rng, quick, scale)
    keep = []
    for c in cases:
        r = region(c)
        if r:
            run.count("skipped_region:" + r)
        else:
            keep.append(c)
    cases = keep
    run.count("cases", len(cases))

    def on_agree(c, b):
        d = dict(b)
        n = d.get("@Aw", " 1").strip().split(" ")[0]
        if n != "1" or any(k in ("brace", "tilde") for k in c["kinds"]) or "*" in c["word"]:
            run.note_nontrivial((tuple(sorted(set(c["kinds"]))), c["ifs"], n if n in ("0", "2", "3") else "many"))

    def on_diff(c, b, h, ck, stderr):
        kind = "crash:" + ck if ck else ("no-result" if b is None else "fields")
        sig = "C05|%s|%s|%s|%s" % ("+".join(sorted(set(c["kinds"]))), c["ifs"], kind, c["word"][:40])
        run.violation(sig, {"kind": "word", "word": c["word"], "v": c["val"], "pos": c["pos"], "arr": c["arr"], "ifs": c["ifs"],
                            "block": c["block"], "brush": b, "bash": h, "crash": ck, "stderr": stderr})

    run.max_violations = 40
    batch.judge_all(run, cases, on_diff, on_agree=on_agree, batch=60, setup_dir=make_tree)
    run.sample({"word": cases[0]["word"], "v": cases[0]["val"], "ifs": cases[0]["ifs"], "pos": cases[0]["pos"]})
    run.sample({"word": cases[-1]["word"], "v": cases[-1]["val"], "ifs": cases[-1]["ifs"], "pos": cases[-1]["pos"]})


def replay(path):
    with open(path) as f:
        rp = json.load(f)
    if rp.get("kind") != "word":
        return 0
    c = {"block": rp["block"]}
    res = {}
    for sh in ("brush", "bash"):
        o, r = batch.run_shell_batch(sh, [c], "", make_tree, None, 30)
        res[sh] = o.get(0)
    print(json.dumps({"word": rp["word"], "brush": res["brush"], "bash": res["bash"]}, indent=1))
    if res["brush"] != res["bash"]:
        print("VIOLATION property=C05 replay=%s" % path)
        return 1
    return 0
