"""C10 — redirections give each command bash's descriptors and are undone afterwards.

Monitors (process level, batched): for every generated redirection list attached to a carrier (external probe `wr`,
function, builtin, brace group, subshell, loop, if, function definition, nested groups, `exec`) the observation is
(a) where the probe's stdout/stderr/extra-fd lines landed and what it could read, and the fd table it saw (`@t`),
(b) the exit status, (c) the byte content of every file afterwards (external `dumpf`), (d) the shell's own descriptor
table before and after the command (external `fdprobe --names`). Compared with bash; independently of bash the
before/after tables must be equal unless the command was `exec`, under noclobber an existing regular file must keep its
content through `>`, and a here-document with a quoted delimiter must arrive byte-exact (tab stripping by `<<-` only).
"""
import itertools
import json
import random

from . import batch, core

SETUP = ("mkdir d{i}; cd d{i}\nprintf '@old1\\n' > f1; printf '@old2\\n' > f2; printf 'line1\\nline2\\n' > in\n"
         "wf() { echo \"@o.$1 out\"; echo \"@e.$1 err\" >&2; }\n"
         # unquoted targets: one word after splitting and globbing is a file name; none or several are an error and nothing is opened
         "mw='f1 f2'; gl='f*'; em=; one='f 3'; g1='f[3]'\n")
TAIL = "\necho \"@r.{i} $?\"\nfdprobe --names --max 12 -t P.{i}\ndumpf {i} f1 f2 f3 in"

REDIRS = ["< in", "< f1", "< missing", "> f1", "> f3", ">> f1", ">| f1", "<> f2", "> nodir/x", "> .", "2> f2", "2>> f2", "2>&1", "1>&2", ">&2",
          "3> f3", "3>&1", "3>&2", "1>&3", "2>&-", ">&-", "<&-", "3>&-", "4<&0", "5< in", "&> f3", "&>> f1", ">& f3", "<<< 'word w'",
          "3<<< hs", "9> f3", "7>&9", "0< f2", "1> f3", "2>&1 > f3", "6<> f1", "6>&1 1>&2 2>&6",
          "> $mw", ">> $mw", "< $mw", "> $gl", "> $em", "2> $mw", "3> $gl"]

CARRIERS = {
    "ext": "wr a.{i} {R}",
    "extpre": "{R} wr a.{i}",
    "func": "wf a.{i} {R}",
    "builtin": "echo \"@o.a.{i} out\" {R}",
    "group": "{ wf a.{i}; wr b.{i}; } {R}",
    "subshell": "( wr a.{i}; wf b.{i} ) {R}",
    "if": "if true; then wr a.{i}; fi {R}",
    "while": "k=; while [ -z \"$k\" ]; do k=1; wr a.{i}; done {R}",
    "funcdef": "g() { wr a.{i}; } {R}\ng\necho \"@r1.{i} $?\"\ng",
    "nested": "{ { wr a.{i}; } {R}; wr b.{i}; } {R2}",
    "exec": "exec {R}\necho \"@x.{i} $?\"\nwr a.{i}\nwf b.{i}",
    "read": "v=unset; read v {R}\necho \"@v.{i} $v\"",
    "extstatus": "wr a.{i} 3 {R}",
}


def make_case(carrier, rlist, rlist2=None, noclobber=False):
    body = CARRIERS[carrier].replace("{R2}", " ".join(rlist2 or [])).replace("{R}", " ".join(rlist))
    pre = SETUP + ("set -C\n" if noclobber else "") + "fdprobe --names --max 12 -t B.{i}\n"
    block = pre + body + TAIL
    return {"block": block, "carrier": carrier, "rlist": rlist, "rlist2": rlist2, "noclobber": noclobber, "kind": "redir"}


# ---- here-documents ------------------------------------------------------------------------------------------

HD_LINES = ["E", "Ex", "xE", "\tE", " E", "$x", "\\$x", "`echo c`", "\\\\", "\"q\"", "'s'", "", "trail  ", "\ttabbed", "a\\", "$(echo d)", "${x}y", "E E"]
HD_DELIMS = [("E", False), ("'E'", True), ("\"E\"", True), ("\\E", True), ("E", False)]


def heredoc_case(rng):
    delim_text, quoted = rng.choice(HD_DELIMS)
    dash = rng.random() < 0.4
    n = rng.randint(0, 6)
    lines = [rng.choice(HD_LINES) for _ in range(n)]
    # a body line equal to the delimiter (after tab stripping for <<-) would end the document early: drop those
    body = [l for l in lines if not (l == "E" or (dash and l.lstrip("\t") == "E"))]
    if not quoted:
        # open finding C10-F5: backslash-newline inside an unquoted here-document is not removed by brush (and as the last
        # body line it would swallow the terminator in bash): such lines only appear under quoted delimiters
        body = [l for l in body if not l.endswith("\\") or l.endswith("\\\\")]
    ctx = rng.choice(["plain", "subst", "func", "loop", "pipe", "two", "group"])
    op = "<<-" if dash else "<<"
    doc = "\n".join(body) + ("\n" if body else "")
    end = ("\t" if dash and rng.random() < 0.5 else "") + "E"
    hd = "%s%s\n%s%s\n" % (op, delim_text, doc, end)
    if ctx == "plain":
        cmd = "cat > hd %s" % hd
    elif ctx == "subst":
        cmd = "y=$(cat %s)\nprintf '%%s\\n' \"$y\" > hd\n" % hd
    elif ctx == "func":
        cmd = "hf() {\ncat > hd %s}\nhf\n" % hd
    elif ctx == "loop":
        cmd = "for k in 1 2; do\ncat >> hd %sdone\n" % hd
    elif ctx == "pipe":
        cmd = "cat %s" % hd.replace("\n", " | cat > hd\n", 1)
    elif ctx == "group":
        cmd = "{ cat; echo tail; } > hd %s" % hd
    else:
        cmd = "cat > hd %scat > hd2 <<'Z'\nsecond $x\nZ\n" % hd
    block = SETUP + "x=XV\nfdprobe --names --max 12 -t B.{i}\n" + cmd + "echo \"@r.{i} $?\"\nfdprobe --names --max 12 -t P.{i}\ndumpf {i} hd hd2"
    expect = None
    if quoted and ctx in ("plain", "func", "group", "two", "pipe", "loop"):
        exp_lines = [l.lstrip("\t") if dash else l for l in body]
        e = "".join(l + "\n" for l in exp_lines)
        if ctx == "loop":
            e = e + e
        if ctx == "group":
            e = e + "tail\n"
        expect = e.encode()
    return {"block": block, "kind": "heredoc", "ctx": ctx, "delim": delim_text, "dash": dash, "body": body, "expect_hd": expect,
            "carrier": "heredoc:" + ctx, "rlist": [op + delim_text], "rlist2": None, "noclobber": False}


HS_WORDS = [("'word'", b"word"), ("$'a\\n'", b"a\n"), ("$'two\\nlines\\n'", b"two\nlines\n"), ("''", b""), ("$'\\n'", b"\n"), ("\"$nlv\"", b"p\nq\n"),
            ("'  sp  '", b"  sp  "), ("$x", b"XV"), ("\"$x y\"", b"XV y"), ("'a\tb'", b"a\tb"), ("$'t\\t'", b"t\t"), ("\"$(printf 'c\\n\\n')\"", b"c"),
            ("*", b"*"), ("'$x'", b"$x"), ("$'x\\n\\n'", b"x\n\n")]


def herestring_case(rng):
    """`<<< word`: the command reads the expanded word followed by exactly one newline - also when the word ends in newlines."""
    word, val = rng.choice(HS_WORDS)
    ctx = rng.choice(["plain", "func", "group", "loop", "fd3", "builtin"])
    if ctx == "plain":
        cmd = "cat > hd <<< %s\n" % word
    elif ctx == "func":
        cmd = "hf() { cat > hd; }\nhf <<< %s\n" % word
    elif ctx == "group":
        cmd = "{ cat; echo tail; } > hd <<< %s\n" % word
    elif ctx == "loop":
        cmd = "while IFS= read -r l; do printf '%%s\\n' \"[$l]\"; done > hd <<< %s\n" % word
    elif ctx == "fd3":
        cmd = "cat <&3 > hd 3<<< %s\n" % word
    else:
        cmd = "mapfile -t arr <<< %s\nprintf '%%s\\n' \"${#arr[@]}\" > hd\n" % word
    block = SETUP + "x=XV\nnlv=$'p\\nq\\n'\nfdprobe --names --max 12 -t B.{i}\n" + cmd + "echo \"@r.{i} $?\"\nfdprobe --names --max 12 -t P.{i}\ndumpf {i} hd hd2"
    data = val + b"\n"
    if ctx in ("plain", "func", "fd3"):
        expect = data
    elif ctx == "group":
        expect = data + b"tail\n"
    elif ctx == "loop":
        expect = b"".join(b"[" + l + b"]\n" for l in data.split(b"\n")[:-1])
    else:
        expect = str(len(data.split(b"\n")) - 1).encode() + b"\n"
    return {"block": block, "kind": "heredoc", "ctx": "herestring:" + ctx, "delim": word, "dash": False, "body": [], "expect_hd": expect,
            "carrier": "herestring:" + ctx, "rlist": ["<<< " + word], "rlist2": None, "noclobber": False}


def heredoc_pair_case(rng):
    """Two here-documents introduced on ONE line, any mix of `<<` and `<<-`: each body is stripped of leading tabs according to
    its own operator, and arrives on its own descriptor."""
    d1, d2 = rng.random() < 0.5, rng.random() < 0.5
    b1 = [rng.choice(["\ta1", "a1", "\t\ta2", " sp", "\t$x", "x\ty"]) for _ in range(rng.randint(0, 3))]
    b2 = [rng.choice(["\tb1", "b1", "\t\tb2", "\tB", "B x"]) for _ in range(rng.randint(0, 3))]
    b1 = [l for l in b1 if l.lstrip("\t") != "A"]
    b2 = [l for l in b2 if not (l == "B" or (d2 and l.lstrip("\t") == "B"))]
    op1, op2 = ("<<-" if d1 else "<<"), ("<<-" if d2 else "<<")
    form = rng.choice(["fd3", "twocmd", "pipe"])
    docs = "".join(l + "\n" for l in b1) + ("\tA\n" if d1 and rng.random() < 0.5 else "A\n") + "".join(l + "\n" for l in b2) + "B\n"
    if form == "fd3":
        cmd = "{ cat; echo --; cat <&3; } > hd %s'A' 3%s'B'\n%s" % (op1, op2, docs)
    elif form == "twocmd":
        cmd = "cat > hd %s'A'; { echo --; cat; } >> hd %s'B'\n%s" % (op1, op2, docs)
    else:
        cmd = "cat %s'A' | { cat; echo --; cat <&3; } 3%s'B' > hd\n%s" % (op1, op2, docs)
    block = SETUP + "x=XV\nfdprobe --names --max 12 -t B.{i}\n" + cmd + "echo \"@r.{i} $?\"\nfdprobe --names --max 12 -t P.{i}\ndumpf {i} hd hd2"
    e1 = "".join((l.lstrip("\t") if d1 else l) + "\n" for l in b1)
    e2 = "".join((l.lstrip("\t") if d2 else l) + "\n" for l in b2)
    return {"block": block, "kind": "heredoc", "ctx": "pair:" + form, "delim": "A/B", "dash": d1, "body": b1 + b2, "expect_hd": (e1 + "--\n" + e2).encode(),
            "carrier": "heredoc:pair:" + form, "rlist": [op1 + "A", op2 + "B"], "rlist2": None, "noclobber": False}


# ---- judging ---------------------------------------------------------------------------------------------------

def norm_obs(obs):
    """File dumps are reduced to their marker lines plus an 'other text present' bit: shell diagnostics that a redirection
    sends into a file legitimately differ in wording between the shells."""
    out = {}
    for i, items in obs.items():
        new = []
        for t, v in items:
            if t == "@D":
                parts = v.strip().split(" ")
                name = parts[0]
                data = b"" if len(parts) < 2 or parts[1] == "-" else bytes.fromhex(parts[1])
                if name in ("hd", "hd2"):
                    new.append((t, v))      # here-document bodies are compared byte for byte
                    continue
                lines = data.split(b"\n")
                marks = [l.decode("utf-8", "replace") for l in lines if l.startswith(b"@")]
                other = any(l and not l.startswith(b"@") for l in lines)
                # (where a shell sends its own diagnostics is not compared: only the workload's marker lines are)
                new.append((t, " %s %s" % (name, "|".join(marks))))
            else:
                new.append((t, v))
        out[i] = new
    return out


def obs_get(obs, tag):
    return [v for t, v in obs if t == tag]


def definitional(c, b):
    """Checks on brush's observation alone. Returns list of (tag, detail)."""
    bad = []
    before = obs_get(b, "@FB")
    after = obs_get(b, "@FP")
    if c["carrier"] != "exec" and before and after and before[0] != after[0]:
        bad.append(("shell-descriptors-not-restored", "before=%s after=%s" % (before[0].strip(), after[0].strip())))
    if c["noclobber"]:
        for t, v in b:
            if t == "@D" and v.strip().startswith("f1 ") and any(r.strip() == "> f1" for r in c["rlist"]) and not any(">|" in r or "&>" in r or ">>" in r or "<>" in r for r in c["rlist"]):
                if v.strip() != "f1 @old1":
                    bad.append(("noclobber-overwrote", v.strip()))
    if c.get("expect_hd") is not None:
        got = None
        for t, v in b:
            if t == "@D" and v.strip().startswith("hd "):
                h = v.strip().split(" ")[1]
                got = b"" if h == "-" else bytes.fromhex(h)
        if got is not None and got != c["expect_hd"]:
            bad.append(("heredoc-not-byte-exact", "got=%r want=%r" % (got, c["expect_hd"])))
    return bad


def dup_of_closed(rlist):
    """Left-to-right simulation of which descriptors a redirection list has closed: True if a later `N>&M` / `N<&M` names a closed M."""
    import re
    closed = set()
    for item in rlist:
        for r in re.findall(r"(\d*)(<>|>>|>\||&>>|&>|>&|<&|<<<|>|<)\s*(\S+)", item):
            n, op, target = r
            if op in (">&", "<&") and (target == "-" or target.isdigit()):
                fd = int(n) if n else (1 if op == ">&" else 0)
                if target == "-":
                    closed.add(fd)
                else:
                    if int(target) in closed:
                        return True
                    closed.discard(fd)
            elif op in ("&>", "&>>") or (op == ">&" and not n):
                closed.discard(1)
                closed.discard(2)
            else:
                fd = int(n) if n else (0 if op in ("<", "<<<", "<>") else 1)
                closed.discard(fd)
    return False


def cluster(c, b, h):
    """Map a divergence to the signature of an open finding, if it is exactly that defect."""
    rl = " ".join(c["rlist"] + (c["rlist2"] or []))
    car = c["carrier"]
    aborted = b is None or not any(t == "@r" for t, _ in b)
    failing = any(x in rl for x in ("missing", "nodir/x", "> .", "1>&3", "7>&9", "$mw", "$gl", "$em"))
    if dup_of_closed(c["rlist"]) or (c["rlist2"] and dup_of_closed(c["rlist2"])):
        failing = True       # duplicating a descriptor that an earlier redirection of the same list closed
    if c["noclobber"]:
        import re
        targets = re.findall(r"(?<![&>|<])\d?> (f\d)", rl)
        if any(t in ("f1", "f2") for t in targets) or len(targets) != len(set(targets)) or ("3> f3" in rl and "> f3" in rl.replace("3> f3", "", 1)):
            failing = True
    if aborted and failing and (car in ("group", "subshell", "if", "while", "nested", "funcdef", "func") or "2>&-" in rl):
        return "failed-redirect-on-compound-aborts"
    if car in ("ext", "extpre", "extstatus", "group", "subshell", "if", "while", "funcdef", "nested", "exec") and any(x in rl for x in ("2>&-", ">&-", "<&-")):
        return "close-of-std-fd-not-seen-by-external"
    if c["noclobber"] and ("&>" in rl or ">&" in rl):
        return "noclobber-ignored-by-ampersand-redirect"
    return None


def run(run):
    batch.MERGE_STDERR[0] = True       # the probes' stderr lines are observations too
    quick = run.tier == "quick"
    scale = getattr(run, "scale", 1.0)
    rng = run.rng("c10")
    run.rule = ("redirection lists of length 1-2 (all ordered pairs over %d redirections, sampled per carrier in the quick tier) and random "
                "lists of 3-4, attached to %d carriers (external probe, prefix position, function, builtin, brace group, subshell, if, while, "
                "function definition, nested groups, exec, read), with and without noclobber; here-documents with bodies from %d line kinds "
                "x 5 delimiter forms x <<-/<< x 7 contexts. observation = probe output placement + fd table seen by the command + status + "
                "file bytes + shell fd table before/after. non-trivial = distinct (carrier, redirection list) that agreed with bash"
                % (len(REDIRS), len(CARRIERS), len(HD_LINES)))
    run.assumptions = ["bash 5.2.15 reference; shell diagnostics (non-marker text) are not compared",
                       "the probe sees what an external child sees; builtins are observed through where their output lands"]
    from . import diffrun
    diffrun.run_canaries(run, prelude="")
    cases = []
    pairs = [[a] for a in REDIRS] + [[a, b] for a in REDIRS for b in REDIRS]
    carriers = list(CARRIERS)
    for car in carriers:
        ps = list(pairs)
        rng.shuffle(ps)
        take = int((220 if quick else len(ps)) * scale)
        for rl in ps[:take]:
            r2 = [rng.choice(REDIRS)] if car == "nested" else None
            cases.append(make_case(car, rl, r2, noclobber=(rng.random() < 0.15)))
    for _ in range(int((600 if quick else 30000) * scale)):
        rl = [rng.choice(REDIRS) for _ in range(rng.choice([3, 4]))]
        car = rng.choice(carriers)
        cases.append(make_case(car, rl, [rng.choice(REDIRS)] if car == "nested" else None, noclobber=(rng.random() < 0.15)))
    for _ in range(int((700 if quick else 20000) * scale)):
        cases.append(heredoc_case(random.Random(rng.getrandbits(64))))
    for _ in range(int((250 if quick else 6000) * scale)):
        cases.append(herestring_case(random.Random(rng.getrandbits(64))))
    for _ in range(int((200 if quick else 5000) * scale)):
        cases.append(heredoc_pair_case(random.Random(rng.getrandbits(64))))
    run.count("cases", len(cases))

    def on_agree(c, b):
        bad = definitional(c, b)
        if bad:
            run.violation("C10|%s|%s" % (bad[0][0], c["carrier"]), {"kind": c["kind"], "block": c["block"], "definitional": bad, "brush": b})
            return
        run.note_nontrivial((c["carrier"], tuple(c["rlist"])))
        run.count("carrier:" + c["carrier"])

    def on_diff(c, b, h, ck, stderr):
        cl = cluster(c, b, h)
        if cl:
            kf = run.findings.match_signature(cl)
            if kf:
                run.findings.report(kf)
                run.count("known:" + kf["id"])
                return
        bad = definitional(c, b) if b else []
        kind = "crash:" + ck if ck else ("no-result" if b is None else (bad[0][0] if bad else first_tag_diff(b, h)))
        sig = "C10|%s|%s|%s" % (c["carrier"], kind, " ".join(c["rlist"])[:40])
        run.violation(sig, {"kind": c["kind"], "block": c["block"], "carrier": c["carrier"], "rlist": c["rlist"], "rlist2": c["rlist2"],
                            "noclobber": c["noclobber"], "brush": b, "bash": h, "definitional": bad, "crash": ck, "stderr": stderr})

    run.max_violations = 40
    batch.judge_all(run, cases, on_diff, on_agree=on_agree, batch=40, timeout=90, norm=norm_obs)
    run.sample({"carrier": cases[0]["carrier"], "redirections": cases[0]["rlist"], "block": cases[0]["block"]})
    hd = [c for c in cases if c["kind"] == "heredoc"]
    if hd:
        run.sample({"heredoc_block": hd[0]["block"]})


def first_tag_diff(b, h):
    bd, hd = {}, {}
    for t, v in b:
        bd.setdefault(t, []).append(v)
    for t, v in h:
        hd.setdefault(t, []).append(v)
    for t in sorted(set(bd) | set(hd)):
        if bd.get(t) != hd.get(t):
            return "diff" + t
    return "order"


def replay(path):
    with open(path) as f:
        rp = json.load(f)
    batch.MERGE_STDERR[0] = True
    c = {"block": rp["block"]}
    res = {}
    batch.NORM[0] = norm_obs
    for sh in ("brush", "bash"):
        o, r = batch.run_shell_batch(sh, [c], "", None, None, 60)
        res[sh] = o.get(0)
    print(json.dumps({"brush": res["brush"], "bash": res["bash"]}, indent=1))
    if res["brush"] != res["bash"]:
        print("VIOLATION property=C10 replay=%s" % path)
        return 1
    return 0
