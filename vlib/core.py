"""Core plumbing shared by every check: build, scratch dirs, shell runner, evidence, findings, verdicts."""
import fcntl
import hashlib
import json
import os
import random
import shutil
import signal
import subprocess
import sys
import tempfile
import threading
import time
from concurrent.futures import ThreadPoolExecutor

VERIF = os.path.dirname(os.path.dirname(os.path.abspath(__file__)))
REPO = "/repo"
TARGET = os.path.join(VERIF, "target")
HTARGET = os.path.join(TARGET, "harness")
BRUSH = os.path.join(TARGET, "debug", "brush")
VTOOL = os.path.join(HTARGET, "debug", "vtool")
VHARNESS = os.path.join(HTARGET, "debug", "vharness")
TOOLS = os.path.join(TARGET, "tools")
SCRATCH_ROOT = os.path.join(VERIF, ".scratch")
BASH = "/usr/bin/bash"
TOOL_NAMES = ["argdump", "gen", "sink", "filt", "envdump", "fdprobe", "fdcount", "msleep", "logline", "wr", "dumpf", "slog"]
NCPU = os.cpu_count() or 4

BRUSH_ARGS = ["--norc", "--noprofile", "--no-config", "--disable-bracketed-paste", "--disable-color"]
BASH_ARGS = ["--norc", "--noprofile"]

CARGO_ENV = dict(os.environ, CARGO_NET_OFFLINE="true", RUST_BACKTRACE="0")


class Inconclusive(Exception):
    """The run itself is unusable (build failure, oracle self-test failure, nothing observed)."""


def log(*a):
    print(*a, file=sys.stderr, flush=True)


# ---------------------------------------------------------------------------------------------
# build


def _run_build(cmd, cwd):
    p = subprocess.run(cmd, cwd=cwd, env=CARGO_ENV, stdout=subprocess.PIPE, stderr=subprocess.STDOUT, text=True)
    if p.returncode != 0:
        raise Inconclusive("build failed: %s\n%s" % (" ".join(cmd), p.stdout[-4000:]))
    return p.stdout


def ensure_built(harness=True):
    """(Re)build brush with hooks, and the harness, from /repo's current working tree. flock-serialised."""
    os.makedirs(TARGET, exist_ok=True)
    t0 = time.time()
    with open(os.path.join(TARGET, ".build.lock"), "w") as lk:
        fcntl.flock(lk, fcntl.LOCK_EX)
        _run_build(
            ["cargo", "build", "--offline", "-q", "--manifest-path", os.path.join(REPO, "Cargo.toml"),
             "-p", "brush-shell", "--features", "verif-hooks,experimental-builtins",
             "--config", "profile.dev.opt-level=1", "--config", "profile.dev.debug=false",
             "--target-dir", TARGET],
            REPO,
        )
        if harness:
            hdir = os.path.join(VERIF, "harness")
            lock_src = os.path.join(REPO, "Cargo.lock")
            lock_dst = os.path.join(hdir, "Cargo.lock")
            if not os.path.exists(lock_dst):
                shutil.copy(lock_src, lock_dst)
            try:
                _run_build(["cargo", "build", "--offline", "-q", "--target-dir", HTARGET], hdir)
            except Inconclusive:
                # Cargo.lock may be stale with respect to /repo's; refresh once and retry.
                shutil.copy(lock_src, lock_dst)
                _run_build(["cargo", "build", "--offline", "-q", "--target-dir", HTARGET], hdir)
            os.makedirs(TOOLS, exist_ok=True)
            for n in TOOL_NAMES:
                dst = os.path.join(TOOLS, n)
                try:
                    if os.path.exists(dst) and os.stat(dst).st_ino == os.stat(VTOOL).st_ino:
                        continue
                    if os.path.lexists(dst):
                        os.unlink(dst)
                    os.link(VTOOL, dst)
                except OSError:
                    shutil.copy(VTOOL, dst)
    return time.time() - t0


# ---------------------------------------------------------------------------------------------
# scratch

_scratch_lock = threading.Lock()
_scratch_n = [0]
_run_root = [None]


def run_root():
    with _scratch_lock:
        if _run_root[0] is None:
            os.makedirs(SCRATCH_ROOT, exist_ok=True)
            _run_root[0] = tempfile.mkdtemp(prefix="r%d-" % os.getpid(), dir=SCRATCH_ROOT)
            os.chmod(_run_root[0], 0o755)
        return _run_root[0]


def new_scratch(prefix="c"):
    root = run_root()
    with _scratch_lock:
        _scratch_n[0] += 1
        n = _scratch_n[0]
    d = os.path.join(root, "%s%06d_%d" % (prefix, n, os.getpid()))     # (pid: forked pool workers share the counter's start)
    os.makedirs(d)
    return d


def cleanup_scratch():
    if _run_root[0] and os.path.isdir(_run_root[0]):
        shutil.rmtree(_run_root[0], ignore_errors=True)
    _run_root[0] = None


def rmtree(d):
    shutil.rmtree(d, ignore_errors=True)


# ---------------------------------------------------------------------------------------------
# running shells


class Res:
    __slots__ = ("rc", "out", "err", "timed_out", "wall", "sig")

    def __init__(self, rc, out, err, timed_out, wall):
        self.rc = rc
        self.out = out
        self.err = err
        self.timed_out = timed_out
        self.wall = wall
        self.sig = -rc if rc is not None and rc < 0 else None

    def brief(self):
        return {"rc": self.rc, "out": self.out[-2000:].decode("utf-8", "replace"),
                "err": self.err[-1500:].decode("utf-8", "replace"), "timed_out": self.timed_out}


FIXED_HOME = os.path.join(SCRATCH_ROOT, "home")


def base_env(home):
    os.makedirs(FIXED_HOME, exist_ok=True)
    return {
        "PATH": TOOLS + ":/usr/bin:/bin",
        "HOME": FIXED_HOME,      # one fixed (empty) home for both shells: `~` expands to the same text everywhere
        "LC_ALL": "C.utf8",
        "TZ": "UTC",
        "RUST_BACKTRACE": "0",
        "TERM": "dumb",
    }


def shell_argv(shell):
    if shell == "brush":
        return [BRUSH] + BRUSH_ARGS
    if shell == "bash":
        return [BASH] + BASH_ARGS
    raise ValueError(shell)


def run_proc(argv, cwd, env, stdin_data=None, timeout=20.0, preexec=None):
    t0 = time.time()
    try:
        p = subprocess.Popen(argv, cwd=cwd, env=env,
                             stdin=subprocess.PIPE if stdin_data is not None else subprocess.DEVNULL,
                             stdout=subprocess.PIPE, stderr=subprocess.PIPE, start_new_session=True,
                             preexec_fn=preexec)
    except OSError as e:
        return Res(127, b"", str(e).encode(), False, 0.0)
    timed_out = False
    try:
        out, err = p.communicate(stdin_data, timeout=timeout)
    except subprocess.TimeoutExpired:
        timed_out = True
        try:
            os.killpg(p.pid, signal.SIGKILL)
        except OSError:
            pass
        try:
            out, err = p.communicate(timeout=5)
        except subprocess.TimeoutExpired:
            p.kill()
            out, err = b"", b""
    # make sure nothing of the group lingers (background jobs the script left behind)
    try:
        os.killpg(p.pid, signal.SIGKILL)
    except OSError:
        pass
    return Res(p.returncode, out, err, timed_out, time.time() - t0)


def run_shell(shell, script, cwd, mode="file", args=(), env_extra=None, stdin_data=None, timeout=20.0,
              shell_opts=(), home=None, preexec=None):
    """Run `script` (str) under brush or bash. mode: file | c | stdin."""
    env = base_env(home or cwd)
    if env_extra:
        env.update(env_extra)
    argv = shell_argv(shell) + list(shell_opts)
    if mode == "file":
        path = os.path.join(cwd, ".vscript.sh")
        with open(path, "w", encoding="utf-8", errors="surrogateescape") as f:
            f.write(script)
        argv += ["./.vscript.sh"] + list(args)      # relative: `$0` is then the same text in every scratch directory
    elif mode == "c":
        argv += ["-c", script, "sh"] + list(args)
    elif mode == "stdin":
        stdin_data = script.encode("utf-8", "surrogateescape")
        if args:
            argv += ["-s", "--"] + list(args)
    else:
        raise ValueError(mode)
    r = run_proc(argv, cwd, env, stdin_data=stdin_data, timeout=timeout, preexec=preexec)
    if mode == "file":
        try:
            os.unlink(path)
        except OSError:
            pass
    return r


def pmap(fn, items, workers=None):
    workers = workers or NCPU
    with ThreadPoolExecutor(max_workers=workers) as ex:
        return list(ex.map(fn, items))


# ---------------------------------------------------------------------------------------------
# crash classification (shared by all checks: a crash is a C01 matter but every check reports it)


def crash_kind(res):
    """Return a short crash signature if the process panicked/aborted/was killed by a fatal signal, else None."""
    if res.rc is None:
        return None
    if res.sig in (signal.SIGSEGV, signal.SIGABRT, signal.SIGBUS, signal.SIGILL, signal.SIGFPE):
        return "signal:%d" % res.sig
    if b"panicked at" in res.err:
        i = res.err.index(b"panicked at")
        site = res.err[i + 12:i + 120].split(b"\n")[0].decode("utf-8", "replace").strip()
        site = site.rstrip(":")
        # keep file:line only
        parts = site.split(":")
        if len(parts) >= 2:
            site = parts[0].split("/")[-1] + ":" + parts[1]
        return "panic:" + site
    if res.rc in (101, 134):
        return "status:%d" % res.rc
    return None


# ---------------------------------------------------------------------------------------------
# known findings


class Findings:
    def __init__(self, prop):
        self.prop = prop
        path = os.path.join(VERIF, "known_findings.json")
        self.entries = []
        if os.path.exists(path):
            with open(path) as f:
                data = json.load(f)
            self.entries = [e for e in data.get("findings", []) if e.get("property") == prop]
        self.reported = set()

    def open_entries(self):
        return [e for e in self.entries if e.get("status") == "open"]

    def all_entries(self):
        return list(self.entries)

    def match_signature(self, sig):
        for e in self.open_entries():
            if sig in e.get("signatures", []):
                return e
        return None

    def report(self, entry, what=None):
        key = entry["id"]
        if key in self.reported:
            return
        self.reported.add(key)
        print("KNOWN-FINDING: property=%s %s %s" % (self.prop, entry["id"], what or entry.get("title", "")), flush=True)


# ---------------------------------------------------------------------------------------------
# evidence + verdict


class Run:
    """One check run: collects counters, samples, violations; writes evidence; decides exit code."""

    def __init__(self, prop, tier, seed, level="exploration"):
        self.prop = prop
        self.tier = tier
        self.seed = seed
        self.level = level
        self.t0 = time.time()
        self.evaluations = 0
        self.nontrivial = set()
        self.rule = ""
        self.samples = []
        self.counters = {}
        self.assumptions = []
        self.violations = []
        self.inconclusive = 0
        self.extra = {}
        self.findings = Findings(prop)
        self._lock = threading.Lock()
        self.max_violations = 8

    def rng(self, salt=""):
        h = hashlib.sha256(("%s|%s|%s" % (self.seed, self.prop, salt)).encode()).digest()
        return random.Random(int.from_bytes(h[:8], "big"))

    def count(self, key, n=1):
        with self._lock:
            self.counters[key] = self.counters.get(key, 0) + n

    def note_nontrivial(self, key):
        with self._lock:
            self.nontrivial.add(key)

    def sample(self, s, limit=8):
        with self._lock:
            if len(self.samples) < limit:
                self.samples.append(s)

    def violation(self, signature, replay):
        """Record a violation. `replay` is a JSON-serialisable dict."""
        with self._lock:
            if any(v[0] == signature for v in self.violations):
                self.counters["violations_deduped"] = self.counters.get("violations_deduped", 0) + 1
                return
            if len(self.violations) >= self.max_violations:
                self.counters["violations_dropped"] = self.counters.get("violations_dropped", 0) + 1
                return
            d = os.path.join(VERIF, "replays", self.prop)
            os.makedirs(d, exist_ok=True)
            name = hashlib.sha256(signature.encode()).hexdigest()[:12] + ".json"
            path = os.path.join(d, name)
            replay = dict(replay)
            replay["property"] = self.prop
            replay["signature"] = signature
            replay["seed"] = self.seed
            with open(path, "w") as f:
                json.dump(replay, f, indent=1, default=_jdefault)
            self.violations.append((signature, path))
        print("VIOLATION property=%s replay=%s" % (self.prop, path), flush=True)
        log("  signature: %s" % signature)

    def finish(self, exhaustive=False):
        wall = time.time() - self.t0
        cov = {
            "evaluations": int(self.evaluations),
            "distinct_nontrivial": len(self.nontrivial),
            "rule": self.rule,
            "samples": self.samples[:10],
            "inconclusive": self.inconclusive,
            "counters": dict(sorted(self.counters.items())),
        }
        if exhaustive:
            cov["exhaustive"] = True
        cov.update(self.extra)
        ev = {
            "property_id": self.prop,
            "tier": self.tier,
            "seed": int(self.seed),
            "level": self.level,
            "coverage": cov,
            "assumptions": self.assumptions,
            "wall_s": round(wall, 2),
            "violations": len(self.violations),
        }
        os.makedirs(os.path.join(VERIF, "evidence"), exist_ok=True)
        tmp = os.path.join(VERIF, "evidence", ".%s.json.tmp" % self.prop)
        with open(tmp, "w") as f:
            json.dump(ev, f, indent=1, default=_jdefault)
        os.replace(tmp, os.path.join(VERIF, "evidence", "%s.json" % self.prop))
        cleanup_scratch()
        if self.violations:
            return 1
        if self.evaluations == 0 or len(self.nontrivial) < 2:
            log("INCONCLUSIVE: nothing (or too little) was observed")
            return 2
        if self.inconclusive * 5 > max(1, self.evaluations):
            log("INCONCLUSIVE: %d of %d cases inconclusive" % (self.inconclusive, self.evaluations))
            return 2
        log("%s %s: held on %d evaluations (%d distinct non-trivial), %d inconclusive, %.1fs" % (
            self.prop, self.tier, self.evaluations, len(self.nontrivial), self.inconclusive, wall))
        return 0


def _jdefault(o):
    if isinstance(o, bytes):
        return o.decode("utf-8", "replace")
    if isinstance(o, (set, frozenset)):
        return sorted(o)
    return str(o)


def txt(b):
    return b.decode("utf-8", "replace") if isinstance(b, (bytes, bytearray)) else b


def shquote(s):
    """Single-quote a string for a shell script (newlines and control characters stay literal inside the quotes)."""
    return "'" + s.replace("'", "'\\''") + "'"
