"""C01 — no input crashes the shell: parse, expand and run always end in a status.

Monitors: (1) process level: hostile scripts (grammar-generated programs, snippet corpus, 1-4 character/token mutations,
boundary-value substitution, nesting ladders to depth 64, every prefix of programs) are executed by the real brush
binary (debug assertions + overflow checks on; as uid 65534 under rlimits); the exit/signal/stderr classifier flags
panics (status 101, `panicked at`), aborts (SIGABRT/SIGSEGV/SIGBUS/SIGILL, status 134), and hangs (brush exceeds the
bound while bash finishes the same script, with the /proc quiescence witness); (2) in-process: every library entry point
(tokenizer, program parser, word parser, arithmetic parser+evaluator, pattern translator, prompt parser+expansion,
completeness decision, highlighter and completion at every cursor) on every corpus line under catch_unwind with a
logical-progress watchdog; (3) thorough tier: the same process-level corpus on an AddressSanitizer build, and the
parser entry points under Miri.
"""
import json
import os
import random
import re
import resource
import signal
import subprocess

from . import core, inproc, mutate

BOUNDARY_TEMPLATES = [
    'x=abcdef; echo "${x:N}" "${x:1:N}" "${x:N:N}" "${x: -N}"', 'a=(1 2 3); echo "${a[@]:N:N}" "${a[N]}" ${a[-N]}', 'set -- a b c; echo "${@:N:N}" "${N}" ${#N}',
    'echo {1..N} | wc -c', 'echo {N..1..N} | wc -c', 'echo {a..e..N}', 'echo {e..a..N}', 'echo $((N + N)) $((N * N)) $((N / 1)) $((-N % N)) $((N << N)) $((2 ** N))',
    'declare -i n=N; n+=N; echo $n', 'n=N; ((n++)); ((n+=N)); echo $n', 'printf "%Nd|%.Ns|%*d\\n" 1 abc N 2', 'printf "%d %x %o\\n" N N N', 'shift N', 'exit N',
    'f() { return N; }; f', 'for i in 1; do break N; done', 'for i in 1; do continue N; done', 'read -n N v <<< abc; echo $v', 'read -t N v <<< abc', 'ulimit -n N',
    'umask N', 'history -d N', 'OPTIND=N; getopts a o -a', 'pushd +N', 'popd -N', 'dirs +N', 'echo x N>/dev/null', 'echo x N>&1', 'exec N>/dev/null', 'echo ~N',
    'x=N; echo ${x@P} ${x@Q} ${x@E}', 'sleep 0 & wait N', 'test N -lt N; [ N -eq N ]; [[ N -gt N ]]', 'echo $((N#1))', 'echo $((36#N))',
    'x=abc; echo ${x:N#1}', 'seq N N 2>/dev/null | head -1', 'a=(); a[N]=x; echo ${#a[@]}', 'declare -a a; a+=([N]=y); echo ${!a[@]}', 'let "x = N"', 'echo ${x:-N}{N,N}',
    'trap "echo t" N', 'set -- $(printf "%Ns" x); echo $#', 'printf -v v "%Ns" x; echo ${#v}', 'mapfile -n N -s N a <<< x', 'fc -l N 2>/dev/null', 'cd -N 2>/dev/null',
    'declare -c x; x=N', 'declare -u x=N; declare -l y=N', 'enable -n N', 'type -N', 'command -N', 'caller N', 'wait %N', 'fg %N', 'bg %N', 'jobs %N', 'disown %N',
    "mapfile -O N a <<< $'x\\ny\\nz'; echo ${#a[@]}", 'mapfile -s N -n N a <<< x', 'mapfile -u N a', 'mapfile -c N -C : a <<< x', 'readarray -O N -t a <<< x', 'read -u N v',
    'read -N N v <<< abc', 'read -d N v <<< abc', 'a=(1 2 3); unset "a[N]"; echo ${#a[@]}', 'a=(1 2 3); echo ${#a[N]} ${a[@]:N}', 'printf "%(%s)T\\n" N', 'wait -n N', 'kill -l N',
    'echo ${x:N:N}{N..N}', 'x=abc; echo ${x: N: N}', 'set -- a b c; echo "${@:N}" "${*:N:N}"', 'declare -a a; a[N]=1; a[-N]=2', 'local_f() { local -a l; l[N]=1; }; local_f', 'trap - N',
    'fc -e : N', 'hash -p /bin/true N; N', 'type -P N', 'cd -L N', 'getopts N o', 'getopts ab o -N', 'let N', 'let "N++"', 'test -t N', '[ -v "a[N]" ]', '[[ -v a[N] ]]',
    'suspend -N', 'times N', 'hash -d N', 'printf "\\xN\\uN\\UN"', "echo $'\\xN\\uN\\N'", 'x=$(printf "\\\\D{%%N}"); echo "${x@P}"', 'PS1="\\D{%N}"; echo "${PS1@P}"',
]
BOUNDARY_VALUES = mutate.BOUNDARY + ["", "-0", "0x7fffffffffffffff", "1e9", "éa", "🚀", "9" * 40, "-" + "9" * 40, "0" * 30 + "1", "+5", " 5 ", "a", "*", "-c", "--"]

LADDERS = ["$( %s )", "$(( %s ))", "{ %s; }", "( %s )", "\"${x:-%s}\"", "`%s`", "if true; then %s; fi", "f() { %s; }; f", "eval '%s'", "${x:-${y:-%s}}", "[[ ( %s ) ]]",
           "((( %s )))", "case x in x) %s;; esac", "while false; do %s; done", "echo {a,%s}", "\"%s\"", "$'%s'", "<( %s )", "x=( %s )", "! %s"]


# ladders with their own innermost operand and outer wrapper: (template, base, outer)
LADDERS2 = [("a[%s]", "0", "a=(0 0 0); echo $(( %s ))"), ("${a[%s]}", "0", "a=(0 0 0); echo %s"), ("${a[$((%s))]}", "0", "a=(0 0 0); echo %s"),
            ("!(%s)", "x", "shopt -s extglob\n[[ x == %s ]]; echo $?"), ("+(%s)", "x", "shopt -s extglob\n[[ x == %s ]]; echo $?"),
            ("@(%s|y)", "x", "shopt -s extglob\ncase x in %s) echo m;; esac"), ("!(%s)", "x", "shopt -s extglob\necho %s"), ("*(%s)", "x", "shopt -s extglob\nv=xx; echo ${v##%s}"),
            ("eval %s", "echo x", "%s"), ("${x:-%s}", "y", "echo %s"), ("${x:+%s}", "y", "x=1; echo %s"), ("\"${x:-%s}\"", "y", "echo %s"), ("(%s)", "1", "echo $(( %s ))"),
            ("-%s", "1", "echo $(( %s ))"), ("%s?1:2", "1", "echo $(( %s ))"), ("1?%s:2", "1", "echo $(( %s ))"), ("x=%s", "1", "echo $(( %s ))"), ("%s+1", "1", "echo $(( %s ))"),
            ("{a,%s}", "b", "echo %s"), ("[%s]", "a", "case a in %s) echo m;; esac"), ("! %s", "true", "%s; echo $?"), ("$(%s)", "echo x", "echo %s"),
            ("\"$(%s)\"", "echo x", "echo %s"), ("`%s`", "echo x", "echo %s"), ("[[ ! ( %s ) ]]", "a == a", "%s; echo $?"), ("if %s; then :; fi", "true", "%s"),
            ("f() { %s; }; f", "echo x", "%s"), ("<(%s)", "echo x", "cat %s"), ("${x/%s/y}", "a", "x=a; echo %s"), ("${x#%s}", "a", "x=a; echo %s"), ("${#x[%s]}", "0", "x=(1); echo %s"),
            ("$((%s))", "1", "echo %s"), ("${!%s}", "x", "x=x; echo %s"), ("a[%s]=1", "0", "%s; echo ${#a[@]}"), ("time %s", "true", "%s"), ("coproc_free() { %s; }", ":", "%s")]


# open finding C01-F5: left unterminated, nests of these shapes are parsed in exponential time where the text reaches the word /
# arithmetic / pattern parsers without passing the tokenizer (prompt expansion, ${v@P}); their open variants are not generated
OPEN_OK = {"$((%s))": False, "@(%s|y)": False, "!(%s)": False, "+(%s)": False, "*(%s)": False, "${a[$((%s))]}": False, "$(%s)": False, "\"$(%s)\"": False,
           "<(%s)": False,
           # (a run of unclosed parentheses inside `$(( ... ))` is the same shape: `echo $(( ((((((1 ))` doubles per level through ${x@P} / word_parse)
           "(%s)": False}


def ladder_scripts():
    out = []
    for tpl in LADDERS:
        for depth in (1, 2, 8, 32, 64):
            s = "1"
            if "((" in tpl or "[[" in tpl:
                s = "1"
            else:
                s = "echo x"
            ok = True
            for _ in range(depth):
                if "'" in tpl and "'" in s:
                    s = s.replace("'", "")
                s = tpl % s
                if len(s) > 6000:
                    ok = False
                    break
            if ok:
                out.append(s)
    for tpl, base, outer in LADDERS2:
        for depth in (1, 2, 3, 4, 6, 8, 12, 16, 32, 64):
            if "!(" in tpl and depth > 8:
                continue            # open finding C01-F4 (the regex for a negated group doubles per nesting level)
            s = base
            for _ in range(depth):
                s = tpl % s
            if len(s) <= 20000:
                out.append(outer % s if "%s" in outer else outer)
                # the same nest left open (cut just after the innermost operand): an unterminated construct must be rejected
                # as fast as a terminated one is accepted
                if OPEN_OK.get(tpl, True):
                    cut = s.find(base, len(s) // 2 - len(base))
                    if cut > 0:
                        out.append((outer % s[:cut + len(base)]) if "%s" in outer else outer)
    # unclosed parentheses followed by a word (subshell / arithmetic ambiguity)
    for depth in (4, 12, 24, 34, 64):
        out.append("(" * depth + "a")
        out.append("echo x; " + "( " * depth + "e m 0")
    return out


PRINTF_FORMATS = ["%s", "%d", "%c", "%b", "%q", "%x", "%5s", "%-5s", "%.2s", "%*s", "%%", "\\c", "a\\c%s", "a\\cb", "\\x", "\\x4", "\\xZ", "\\0", "\\0101", "\\u", "\\u00e9", "\\uD800",
                  "\\U", "\\U00110000", "\\e", "%", "%z", "%(%Y)T", "%(", "%(%", "%5", "%.", "%5.", "%#x", "%+d", "% d", "%05d", "%'d", "%ld", "%lld", "%n", "%1$s", "%-", "%*", "%.*s",
                  "%s%s%s", "%b%b", "%c%c", "\\", "\\z", "%s\\c%s", "\\1", "\\8", "%e", "%f", "%g", "%a", "%i", "%o", "%u", "%X", "%E", "%G", "%5c", "%.0s", "%99999999999s", "%.99999999999s"]
PRINTF_ARGS = ["", "x y", "x", "1 2 3", "-1", "é", "'a\\cb' z", "'\\c'", "0x10 010 1e3", "9223372036854775808", "'' ''"]


def printf_scripts():
    out = []
    for f in PRINTF_FORMATS:
        for a in PRINTF_ARGS:
            out.append("printf '%s' %s\necho; echo rc=$?\nprintf -v v '%s' %s; echo ${#v}\n" % (f, a, f, a))
    return out


def boundary_scripts(rng, n):
    out = []
    for tpl in BOUNDARY_TEMPLATES:
        for v in BOUNDARY_VALUES:
            out.append(tpl.replace("N", v))
    rng.shuffle(out)
    return out[:n]



# every string-consuming operator on one value: a crash on any of them must not be masked by another, so one operator per script
STRING_TEMPLATES = [
    'echo "${v^}"', 'echo "${v,}"', 'echo "${v^^}"', 'echo "${v,,}"', 'echo "${v~}"', 'echo "${v~~}"', 'echo "${v^?}"', 'echo "${v,[!a]}"', 'echo "${v^^[[:alpha:]]}"',
    'echo "${v#?}"', 'echo "${v##?*}"', 'echo "${v%?}"', 'echo "${v%%*?}"', 'echo "${v:1}"', 'echo "${v:0:1}"', 'echo "${v: -1}"', 'echo "${v:1:-1}"', 'echo "${v/?/X}"',
    'echo "${v//?/X}"', 'echo "${v/#?/X}"', 'echo "${v/%?/X}"', 'echo "${v//}"', 'echo "${v/$v}"', 'echo "${#v}"', 'echo "${v@Q}"', 'echo "${v@U}"', 'echo "${v@u}"', 'echo "${v@L}"',
    'echo "${v@E}"', 'echo "${v@P}"', 'echo "${v@A}"', 'echo "${v@K}"', 'echo "${v@a}"', 'echo ${v}', 'echo ${v:-$v}${v:+$v}', 'echo "${!v}"', 'echo "${!v@}"', 'echo "${!v*}"',
    'a=("$v" "$v"); echo "${a[@]^}" "${a[*],}" "${a[@]:1}" "${a[@]#?}" "${a[@]/?/X}" "${#a[0]}"', 'set -- "$v" "$v"; echo "${@^}" "${*,,}" "${1^}" "${@:1:1}" "${@%?}"',
    'declare -A m; m[$v]=$v; echo "${m[$v]^}" "${!m[@]}" "${m[@]@Q}"', 'printf "%5s|%-5s|%.1s|%c|\n" "$v" "$v" "$v" "$v"', 'printf "%q|%b|\n" "$v" "$v"', 'printf "$v\n"',
    'printf "%d|%i|%u|%x|%f|%e|%g\n" "$v" "$v" "$v" "$v" "$v" "$v" "$v"', 'printf -v w "%s" "$v"; echo "${#w}"', 'echo -e "$v"', 'echo -n "$v"', 'read -r -n 1 x <<< "$v"; echo "$x"',
    'read -r -N 2 x <<< "$v"; echo "$x"', 'read -r -d "$v" x <<< "a${v}b"; echo "$x"', 'IFS=$v; x="a${v}b${v}${v}c"; set -- $x; echo $# "$*"', 'IFS=$v read -r x y <<< "a${v}b"; echo "$x|$y"',
    '[[ $v == $v ]]; [[ $v == ?* ]]; [[ "$v" < b ]]; echo $?', '[[ $v =~ ^.(.*)$ ]]; echo "${BASH_REMATCH[1]}"', '[[ a =~ $v ]]; echo $?', 'case $v in ?) echo one;; ?*) echo many;; *) echo none;; esac',
    'declare -u x=$v; declare -l y=$v; declare -c z=$v; echo "$x$y$z"', 'x=$v; x+=$v; echo "${#x}"', 'declare -i n; n=$v; echo $n', 'echo $(( v )) $(( ${#v} ))', 'test "$v" = "$v"; [ -n "$v" ]; [ "$v" -eq 1 ]',
    'echo $v*', 'echo "$v"{a,b}', 'eval "echo $v"', 'eval "x=\\"$v\\""', 'alias q="$v"; alias q; unalias q', 'f() { echo "$1"; }; f "$v"; declare -f f', 'export x="$v"; export -p | tail -1; env | grep -c "^x="',
    'cd "$v" 2>/dev/null; pwd >/dev/null', 'type "$v"; command -v "$v"; hash "$v"', 'trap "$v" USR1; trap -p USR1', 'set -o "$v"; shopt -s "$v"', 'unset "$v"; unset -f "$v"; declare -p "$v"',
    'compgen -W "$v $v" -- "$v"', 'compgen -v -- "$v"; compgen -A file -- "$v" | head -2', 'complete -W "$v" c; complete -p c', 'getopts "$v" o "$v"; echo "$o"', 'PS1=$v; echo "${PS1@P}"',
    'echo "$v" > "$v.out"; cat < "$v.out"', 'cat <<< "$v"', 'cat <<EOF\n$v ${v^} ${v:1}\nEOF', 'echo "$v" | while read -r l; do echo "${l:1}"; done', 'history -s "$v"; history 1', 'let "$v"', 'echo ${v:$v}',
    'mapfile -t a <<< "$v"; echo "${a[0]:1}"', 'mapfile -d "$v" a <<< "a${v}b"; echo ${#a[@]}', 'printf "%s\\n" "${v@Q}" | { read -r q; eval "w=$q"; [ "$w" = "$v" ]; echo $?; }', 'kill -l "$v"; ulimit "$v"; umask "$v"',
    'pushd "$v"; popd; dirs', 'echo "${v:0:1}${v:1:1}${v:2}"', 'x=("${v:0:1}" "${v: -1:1}"); echo "${x[@]}"', 'declare -n r=$v; echo "$r"', 'local_f() { local "$v"=1; local -; }; local_f',
]
STRING_VALUES = ["éa", "ñu", "Éa", "爸x", "🚀z", "éa", "ß", "İx", "ǅx", "aé", "", " ", "a b", "*", "?", "[", "[a", "]", "\\", "\\\\", "a\\", "'", '"', "$", "$(", "`", "${", "${v}", "$v",
                 "-n", "--", "-", "!", "!!", "~", "#", "%", "%s", "%5", "%*d", "%n", "\\x", "\\u", "\\U1F680", "\\0", "\\c", "\t", "\n", "\r", "\x01", "\x7f", "​", "‮", "﻿", "\U0010ffff",
                 "a" * 300, "é" * 200, "/", "//", ".", "..", "a=b", "=", "a[0]", "a[", "[0]", "1+1", "v", "0", "08", "1e5", "0x", "9223372036854775807", "-9223372036854775808", "@", "a@b", "+(a)", "!(", "@(|)", "{a,b}", "{1..3}", ";", "&", "|", "<", ">", "(", ")"]

CYCLE_VALUE_FORMS = ["V", "V+1", "r[V]", "r[V]+W", "V[0]", "(V)", "-V", "V?W:V", "W=V", "V++", "1", "", "V*W", "r[r[V]]", "V[W]", "m[V]", "V,W", "!V", "V||W", "V**2", "V<<W", "r[V]=W", "$V", "${V}", "V W", "V["]
CYCLE_CONTEXTS = ['echo $(( a ))', '(( a )); echo $?', 'let a; echo $?', 'x=abcdef; echo "${x:a}"', 'x=abcdef; echo "${x:0:a}"', 'z=(1 2 3); echo "${z[a]}"', 'z=(1 2 3); z[a]=5; echo "${z[@]}"',
                  'declare -i q; q=a; echo $q', '[[ a -eq 1 ]]; echo $?', 'for (( i = a; i < 1; i++ )); do :; done', 'echo $(( a++ )) $(( a += b ))', 'z=(1 2 3); echo "${z[@]:a:b}"', 'echo $(( r[a] ))',
                  'z=(1 2 3); unset "z[a]"; echo ${#z[@]}', 'declare -i q=a; q+=b; echo $q', 'echo "${r[a]}" "${m[a]}"', 'printf "%d\n" $(( a ))', 'test -v "r[a]"; echo $?', 'echo $(( a ? b : c ))', 'x=$(( a )) || echo fail']
OTHER_CYCLES = [
    'a=a; echo "${!a}"', 'a=b; b=a; echo "${!a}" "${!b}"', 'declare -n a=b; declare -n b=a; echo "$a"; a=1; echo $?', 'declare -n a=a; echo $?', 'declare -n a=b b=c c=a; a=5; echo "${a}" "${!a}"; unset a; unset -n a',
    'alias a=a; a; echo $?', 'alias a=b b=a; shopt -s expand_aliases; a; echo $?', "shopt -s expand_aliases; alias a='a '; alias b='a b'\nb x", "x='${x@P}'; echo \"${x@P}\"", "PS1='${PS1@P}'; echo \"${PS1@P}\"", 'a=(1); a[a]=a; echo $(( a[a] ))', 'declare -A m; m[m]=m; echo $(( m[m] ))', "trap 'false' ERR; false; echo $?", "trap 'kill -USR1 $$' USR1; kill -USR1 $$; echo x",
    "trap 'trap - DEBUG; echo d' DEBUG; echo x", "PROMPT_COMMAND='PROMPT_COMMAND=$PROMPT_COMMAND'; echo x", "IFS=IFS; echo $IFS", "declare -n r=r[0]; echo $?", "declare -n r='r[r]'; echo $?", "x=x[x]; echo $(( x ))",
    "declare -i x; x=x; echo $x", "declare -i x='x+1'; x=x; echo $x", "declare -n n=v; declare -i v='n'; echo $v", "f() { local -n n=$1; echo $n; }; n=n; f n", "f() { local -n r=$1; r=1; }; f r; echo $?",
    "BASH_REMATCH=x; [[ a =~ a ]]; echo ${BASH_REMATCH[0]}", "a=b; b=c; c=d; d=a; echo ${!a} $(( a ))", "set -- '$1'; eval \"echo $1\"", "OPTIND=OPTIND; getopts a o; echo $?", "RANDOM=RANDOM; SECONDS=SECONDS; echo $?",
    "declare -n a=b; declare -n b=a; declare -p a b; unset -n a b", "declare -n a=b; declare -n b=a; for a in 1 2; do :; done; echo $?", "declare -n a=b; declare -n b=a; read a <<< x; echo $?", "declare -n a=b; b=a; declare -n b; printf -v a %s x; echo $?",
]


def string_scripts(rng, n):
    out = []
    for tpl in STRING_TEMPLATES:
        for v in STRING_VALUES:
            out.append("v=%s\n%s\n" % (core.shquote(v), tpl))
    rng.shuffle(out)
    return out[:n]


def cycle_scripts(rng, n):
    out = list(OTHER_CYCLES)
    names = ["a", "b", "c", "d"]
    while len(out) < n:
        lines = ["r=(0 1 2 3)", "declare -A m=([a]=b [b]=a [0]=a)"]
        for nm in rng.sample(names, rng.randint(1, 4)):
            form = rng.choice(CYCLE_VALUE_FORMS)
            form = form.replace("V", rng.choice(names)).replace("W", rng.choice(names))
            lines.append("%s=%s" % (nm, core.shquote(form)))
        if rng.random() < 0.2:
            lines.append("r[%s]=%s" % (rng.choice("0123ab"), core.shquote(rng.choice(names) + rng.choice(["", "+1", "[0]"]))))
        lines.append(rng.choice(CYCLE_CONTEXTS))
        lines.append("echo end $?")
        out.append("\n".join(lines) + "\n")
    return out[:n]


def setlimits(address_space=True):
    try:
        resource.setrlimit(resource.RLIMIT_CPU, (4, 5))
        resource.setrlimit(resource.RLIMIT_FSIZE, (1 << 24, 1 << 24))
        if address_space:       # (AddressSanitizer reserves terabytes of shadow address space: no RLIMIT_AS there)
            resource.setrlimit(resource.RLIMIT_AS, (4 << 30, 4 << 30))
        resource.setrlimit(resource.RLIMIT_CORE, (0, 0))
        os.setgroups([])
        os.setgid(65534)
        os.setuid(65534)
    except OSError:
        pass


def setlimits_asan():
    setlimits(False)


def run_hostile(shell, script, binary=None, extra_env=None, asan=False):
    d = core.new_scratch("h01")
    os.chmod(d, 0o777)
    path = os.path.join(d, ".vscript.sh")
    with open(path, "w", encoding="utf-8", errors="surrogateescape") as f:
        f.write(script)
    os.chmod(path, 0o644)
    argv = ([binary] + core.BRUSH_ARGS if binary else core.shell_argv(shell)) + ["./.vscript.sh"]
    env = core.base_env(d)
    env["HOME"] = d
    if extra_env:
        env.update(extra_env)
    r = core.run_proc(argv, d, env, timeout=30 if asan else 8, preexec=setlimits_asan if asan else setlimits)
    core.rmtree(d)
    return r


KNOWN_OK_SIGNALS = (9, 24, 25)      # SIGKILL/SIGXCPU/SIGXFSZ from our own rlimits


def classify(r):
    if b"overflowed its stack" in r.err:
        return "stack-overflow"
    if b"memory allocation of" in r.err and b"failed" in r.err:
        return "alloc-failure"
    ck = core.crash_kind(r)
    if ck:
        return ck
    if r.sig and r.sig not in KNOWN_OK_SIGNALS and r.sig not in (13, 15, 2, 10, 12, 1, 3, 14):
        return "signal:%d" % r.sig
    if b"overflowed its stack" in r.err:
        return "stack-overflow"
    if b"memory allocation of" in r.err and b"failed" in r.err:
        return "alloc-failure"
    return None


def setlimits_probe():
    try:
        resource.setrlimit(resource.RLIMIT_CPU, (100, 101))
        resource.setrlimit(resource.RLIMIT_FSIZE, (1 << 26, 1 << 26))
        resource.setrlimit(resource.RLIMIT_AS, (4 << 30, 4 << 30))
        resource.setrlimit(resource.RLIMIT_CORE, (0, 0))
        os.setgroups([])
        os.setgid(65534)
        os.setuid(65534)
    except OSError:
        pass


def hang_probe(script, window=25.0):
    """brush did not finish a script bash finishes: is the *shell* stuck, or is it busily running the script's own loop (a semantic
    difference, some other property's business)? Re-run with the hook event log on: every command the interpreter starts appends
    a `pipeline.stage_spawned` event. No new event and no output during `window` seconds twice in a row, while the process is
    still there = the shell itself is stuck (busy: internal loop; asleep: deadlock). Returns (verdict, detail)."""
    import time
    d = core.new_scratch("hp01")
    os.chmod(d, 0o777)
    path = os.path.join(d, ".vscript.sh")
    with open(path, "w", encoding="utf-8", errors="surrogateescape") as f:
        f.write(script)
    os.chmod(path, 0o644)
    evlog = os.path.join(d, "events")
    open(evlog, "w").close()
    os.chmod(evlog, 0o666)
    env = core.base_env(d)
    env["HOME"] = d
    env["BRUSH_VERIF_LOG"] = evlog
    outp = os.path.join(d, "out")
    with open(outp, "wb") as out:
        p = subprocess.Popen(core.shell_argv("brush") + ["./.vscript.sh"], cwd=d, env=env, stdin=subprocess.DEVNULL, stdout=out, stderr=subprocess.STDOUT,
                             start_new_session=True, preexec_fn=setlimits_probe)
    verdict, detail = None, {}
    last = (-1, -1)
    quiet = 0
    t0 = time.time()
    while True:
        try:
            p.wait(timeout=window)
            if p.returncode in (-24, -25):        # our own CPU / file-size limits (the event log grew to 64 MB): it was running commands
                verdict, detail = "looping", {"ended_by_rlimit": -p.returncode, "events_bytes": os.path.getsize(evlog)}
            else:
                with open(outp, "rb") as f:
                    f.seek(max(0, os.path.getsize(outp) - 6000))
                    tail = f.read()
                verdict, detail = "finished", {"rc": p.returncode, "seconds": round(time.time() - t0, 1), "tail": tail}
            break
        except subprocess.TimeoutExpired:
            pass
        cur = (os.path.getsize(evlog), os.path.getsize(outp))
        if cur[0] == last[0]:          # progress = the interpreter starting commands; a builtin that prints forever is not progress
            quiet += 1
        else:
            quiet = 0
        last = cur
        if quiet >= 2:
            cpu = 0
            try:
                with open("/proc/%d/stat" % p.pid) as f:
                    parts = f.read().rsplit(")", 1)[1].split()
                cpu = int(parts[11]) + int(parts[12])
            except (OSError, IndexError, ValueError):
                pass
            kids = subprocess.run(["pgrep", "-P", str(p.pid)], capture_output=True, text=True).stdout.split()
            verdict = "stuck"
            detail = {"events_bytes": cur[0], "output_bytes": cur[1], "cpu_ticks": cpu, "live_children": len(kids), "seconds": round(time.time() - t0, 1),
                      "state": "busy" if cpu > 100 * (time.time() - t0) * 0.5 else "asleep"}
            break
        if time.time() - t0 > 8 * window:
            verdict, detail = "looping", {"events_bytes": cur[0], "output_bytes": cur[1]}
            break
    try:
        os.killpg(p.pid, signal.SIGKILL)
    except OSError:
        pass
    p.wait()
    core.rmtree(d)
    return verdict, detail


FUNC_HEADER = re.compile(r"(?:^|[\n;&|({]|\bfunction)\s*([A-Za-z_][A-Za-z0-9_]*)\s*\(\s*\)")


def static_call_cycle(script):
    """Over-approximate call graph of the functions a script defines (body = text from the header to the first line that is a
    bare `}`, or to the end): True if some function can reach itself. Used only to attribute a stack overflow to recursion written
    in the input when bash never got as far as running it (e.g. it stopped at a syntax error brush does not see)."""
    heads = [(m.group(1), m.end()) for m in FUNC_HEADER.finditer(script)]
    bodies = {}
    for name, start in heads:
        eol = script.find("\n", start)
        line = script[start:] if eol < 0 else script[start:eol]
        if line.rstrip().endswith("}") and line.count("{") == line.count("}"):
            body = line                                   # one-line definition
        else:
            m = re.search(r"\n\}[ \t]*(?:\n|$)", script[start:])
            body = script[start:start + m.start()] if m else script[start:]
        bodies[name] = bodies.get(name, "") + "\n" + body
    cmdpos = r"(?:^|[\n;&|({!]|\b(?:then|do|else|elif|if|while|until|time))[ \t]*"
    edges = {n: {k for k in bodies if re.search(cmdpos + re.escape(k) + r"(?=[\s;&|)]|$)", b)} for n, b in bodies.items()}
    for n in bodies:
        seen, todo = set(), list(edges[n])
        while todo:
            k = todo.pop()
            if k == n:
                return True
            if k not in seen:
                seen.add(k)
                todo.extend(edges[k])
    return False


ASAN_ENV = {"ASAN_OPTIONS": "detect_leaks=1:halt_on_error=1:abort_on_error=0:allocator_may_return_null=1:max_allocation_size_mb=3072:hard_rss_limit_mb=4096"}


def _pool_eval(args):
    """Runs in a forked pool worker (forking a small process is cheap; the driver with the whole corpus in memory is not)."""
    script, binary, asan = args
    r = run_hostile("brush", script, binary, extra_env=ASAN_ENV if asan else None, asan=asan)
    err = r.err if len(r.err) <= 8000 else r.err[:3000] + b"\n...\n" + r.err[-5000:]
    return core.Res(r.rc, r.out[-2000:], err, r.timed_out, r.wall)


def pool_map(pool, scripts, binary=None, asan=False):
    return pool.imap(_pool_eval, [(s, binary, asan) for s in scripts], chunksize=16)


def judge_script(run, item, binary=None, r=None):
    origin, script = item
    if r is None:
        r = run_hostile("brush", script, binary)
    run.evaluations += 1
    kind = classify(r)
    if kind is None and not r.timed_out and r.sig != 24:
        run.status_hist[r.rc if r.rc is not None else -1] = run.status_hist.get(r.rc, 0) + 1
        run.note_nontrivial((origin, r.rc, len(script) // 50))
        return
    if kind is None:
        # did not finish: does bash finish the same script?
        rh = run_hostile("bash", script)
        if rh.timed_out or rh.sig == 24:
            run.count("both_shells_do_not_terminate")
            return
        run.count("brush_exceeded_the_bound_where_bash_finishes")
        run.slow.append((origin, script))
        return
    site = kind
    if kind in ("stack-overflow", "signal:11"):
        # unbounded recursion written in the input itself (a function calling itself, a prompt expanding itself) crashes
        # bash too; only recursion that bash survives counts against brush
        rh = run_hostile("bash", script)
        if rh.sig == 11 or rh.rc == 139:
            run.count("unbounded_recursion_in_input_crashes_bash_too")
            return
        # bash survives `f() { f | x; }` only because each level is a fresh process (a fork bomb, ended by RLIMIT_NPROC);
        # its own FUNCNEST guard tells whether the input calls functions more than 300 levels deep
        rh = run_hostile("bash", script, extra_env={"FUNCNEST": "300"})
        if b"maximum function nesting level exceeded" in rh.err:
            run.count("unbounded_recursion_in_input_beyond_300_levels")
            return
        if static_call_cycle(script):
            # the script's own functions can reach themselves (typically a mutated definition whose body swallowed its callers);
            # where bash escapes the recursion only through a different error path (a `return` with bad arguments returns in bash
            # and carries on in brush, a syntax error brush does not see) the overflow is still recursion written in the input
            run.count("recursive_function_in_input_static_call_cycle")
            return
    kf = run.findings.match_signature(site)
    if kf:
        run.findings.report(kf)
        run.count("known:" + kf["id"])
        return
    # minimise: shortest prefix / line that still crashes the same way
    small = minimise(script, kind, binary)
    run.violation("C01|%s" % site, {"kind": "crash", "crash": kind, "origin": origin, "script": small, "original_script": script[:2000],
                                   "stderr": core.txt(r.err[-600:]), "rc": r.rc})


def minimise(script, kind, binary):
    lines = script.split("\n")
    if len(lines) > 1:
        for i in range(len(lines)):
            cand = "\n".join(lines[:i] + lines[i + 1:])
            if cand.strip() and classify(run_hostile("brush", cand, binary)) == kind:
                return minimise(cand, kind, binary) if len(lines) < 40 else cand
    return script


def judge_slow(run):
    """Scripts brush did not finish within the bound although bash did: stuck shell (violation) or busy script / merely slow?"""
    cands = run.slow[:200]
    run.count("hang_probes", len(cands))

    def one(item):
        origin, script = item
        if re.search(r"\bcoproc\b", script):
            return item, ("coproc", {})
        return item, hang_probe(script)

    for (origin, script), (verdict, detail) in core.pmap(one, cands):
        if verdict == "coproc":
            kf = next((e for e in run.findings.all_entries() if e["id"] == "C01-F1"), None)
            if kf:
                run.findings.report(kf)
            run.count("known:C01-F1")
        elif verdict == "finished":
            kind = classify(core.Res(detail["rc"], b"", detail["tail"], False, detail["seconds"]))
            if kind:        # it did end - by crashing (e.g. unbounded growth inside the shell until the address-space limit)
                run.violation("C01|%s|after-%ds" % (kind, 10 * int(detail["seconds"] / 10)),
                              {"kind": "crash-on-longer-bound", "crash": kind, "origin": origin, "script": script[:3000], "rc": detail["rc"],
                               "stderr": core.txt(detail["tail"][-800:]), "seconds": detail["seconds"]})
            else:
                run.count("slow_but_finished_within_the_longer_bound")
        elif verdict == "looping":
            run.count("script_level_loop_where_bash_finishes")        # commands keep being executed: a semantic difference, not a stuck shell
        else:
            sig = "hang:%s" % detail.get("state")
            kf = run.findings.match_signature(sig)
            if kf:
                run.findings.report(kf)
                continue
            run.violation("C01|%s|%s" % (sig, script[:40]), {"kind": "hang", "origin": origin, "script": script[:3000], "probe": detail,
                                                               "what": "no command started for 50 s while bash finishes the script"})
    run.slow = [s[:300] for _, s in run.slow[:3]]


def inproc_layer(run, lines):
    d = core.new_scratch("i01")
    path = os.path.join(d, "lines.hex")
    inproc.write_hex(path, [l for l in lines if len(l) <= 300])
    res = inproc.run_harness(["crash-inproc", "--file", path], timeout=1500)
    if res.get("hang"):
        kf = run.findings.match_signature("inproc-hang")
        run.violation("C01|inproc-hang|" + res.get("case", "")[:60], {"kind": "inproc-hang", "case": res.get("case")})
        return
    if "calls" not in res:
        raise core.Inconclusive("vharness crash-inproc failed: %s" % json.dumps(res)[:400])
    run.evaluations += res["calls"]
    run.count("inproc_calls", res["calls"])
    run.count("inproc_lines", res["lines"])
    for v in res["violations"]:
        what = v["what"]
        m = re.search(r"([\w/.-]+\.rs):(\d+)", what)
        site = "inproc:%s:%s" % (v["entry_point"], what[:60])
        kf = run.findings.match_signature("inproc:" + v["entry_point"] + ":" + what[:40])
        if kf:
            run.findings.report(kf)
            continue
        run.violation("C01|%s" % site[:90], {"kind": "inproc", "entry_point": v["entry_point"], "line": v["line"], "cursor": v["cursor"], "what": what})


def corpus(run, quick, scale):
    rng = run.rng("corpus")
    items = []
    for s in mutate.SEED_SNIPPETS:
        items.append(("snippet", s))
    progs = mutate.grammar_programs(rng, int((60 if quick else 2000) * scale))
    for p in progs:
        items.append(("grammar", p))
    base = [s for _, s in items]
    for _ in range(int((1500 if quick else 120000) * scale)):
        items.append(("mutated", mutate.mutate_text(rng, rng.choice(base))))
    for s in boundary_scripts(rng, int((900 if quick else 100000) * scale)):
        items.append(("boundary", s))
    for s in ladder_scripts():
        items.append(("ladder", s))
    for s in printf_scripts():
        items.append(("printf", s))
    for s in string_scripts(rng, int((2500 if quick else 10**9) * scale)):
        items.append(("string", s))
    for s in cycle_scripts(rng, int((500 if quick else 30000) * scale)):
        items.append(("cycle", s))
    from . import c19
    tl = list(c19.template_lines(1))          # two-slot construct templates (here-documents with odd tags, escapes in backquotes, ...)
    rng.shuffle(tl)
    for s in tl[: int((4000 if quick else 10**9) * scale)]:
        items.append(("template", s))
    for p in progs[: int((12 if quick else 200) * scale)]:
        ls = p.split("\n")
        for k in range(1, len(ls)):
            items.append(("prefix", "\n".join(ls[:k])))
        for k in range(0, len(p), 7 if quick else 1):
            items.append(("charprefix", p[:k]))
    for _ in range(int((200 if quick else 10000) * scale)):
        a, b = rng.choice(base), rng.choice(base)
        items.append(("splice", a[:rng.randrange(len(a) + 1)] + b[rng.randrange(len(b) + 1):]))
    return items


def run(run):
    quick = run.tier == "quick"
    scale = getattr(run, "scale", 1.0)
    run.status_hist = {}
    run.slow = []
    run.rule = ("scripts: 24 feature snippets, grammar programs, 1-4 char/token mutations of those (shell metacharacters, multi-byte, combining "
                "marks), %d boundary templates x %d boundary values (i64 extremes, 2^63, 2^64-1, 20-digit, empty, multi-byte), nesting ladders "
                "of 20 constructs to depth 64, %d string operators x %d string values (multi-byte first characters, combining marks, quotes, "
                "control characters, pattern and format metacharacters), reference cycles (arithmetic variables through subscripts, namerefs, "
                "indirection, aliases, prompts) in 20 evaluation contexts, every line prefix and sampled char prefix of programs, splices; plus the in-process entry "
                "points on corpus lines at every cursor. non-trivial = distinct (origin, exit status, size class) of scripts that ended in a status"
                % (len(BOUNDARY_TEMPLATES), len(BOUNDARY_VALUES), len(STRING_TEMPLATES), len(STRING_VALUES)))
    run.assumptions = ["scripts run as uid 65534 with CPU/AS/FSIZE rlimits in a private directory", "a script neither shell finishes is not a hang",
                       "unbounded recursion written in the script itself (f() { f; }) crashes bash too and is not generated"]
    import multiprocessing
    pool = multiprocessing.get_context("fork").Pool(core.NCPU)       # forked before the corpus exists: workers stay small
    canaries(run)
    items = corpus(run, quick, scale)
    run.count("scripts", len(items))
    run.max_violations = 25
    for it, r in zip(items, pool_map(pool, [s for _, s in items])):
        judge_script(run, it, r=r)
    judge_slow(run)
    rng = run.rng("lines")
    lines = mutate.corpus_lines(rng, int((1200 if quick else 40000) * scale))
    lines += [s for o, s in items if o in ("boundary", "ladder") and "\n" not in s][: int((800 if quick else 20000) * scale)]
    lines += [s for o, s in items if o == "template"][: int((1500 if quick else 40000) * scale)]
    # the deep end of the nesting ladders must reach the line-editor entry points in the quick tier too
    deep = [s for o, s in items if o == "ladder" and "\n" not in s and len(s) > 150]
    rng.shuffle(deep)
    lines += deep[: int((150 if quick else 5000) * scale)]
    inproc_layer(run, lines)
    if not quick:
        asan_layer(run, items, pool)
        miri_layer(run, lines)
    pool.close()
    pool.join()
    run.extra["exit_status_histogram"] = {str(k): v for k, v in sorted(run.status_hist.items(), key=lambda kv: -kv[1])[:12]}
    run.extra["slow_or_looping_samples"] = run.slow[:3]
    run.sample({"origin": items[len(mutate.SEED_SNIPPETS) + 100][0], "script": items[len(mutate.SEED_SNIPPETS) + 100][1][:400]})
    run.sample({"origin": "boundary", "script": next(s for o, s in items if o == "boundary")})


def canaries(run):
    """Exact reproducers of known crash findings (open and fixed)."""
    for e in run.findings.all_entries():
        if "script" not in e:
            continue
        r = run_hostile("brush", e["script"])
        run.evaluations += 1
        kind = classify(r)
        hung = r.timed_out or r.sig == 24        # (24: our own CPU limit)
        if e.get("status") == "open":
            want = e.get("crash")
            if (kind and kind == want) or (want == "hang" and hung):
                run.findings.report(e)
                run.count("canaries_known_defect")
            elif kind or hung:
                run.violation("C01|canary:%s|%s" % (e["id"], kind or "hang"), {"kind": "canary", "finding": e["id"], "script": e["script"], "crash": kind,
                                                                            "stderr": core.txt(r.err[-400:])})
            else:
                run.count("canaries_no_longer_failing")
        else:
            if kind or hung:
                run.violation("C01|regressed:%s|%s" % (e["id"], kind or "hang"), {"kind": "canary", "finding": e["id"], "script": e["script"], "crash": kind,
                                                                               "stderr": core.txt(r.err[-400:])})
            else:
                run.count("canaries_fixed_still_fixed")


# ---- thorough-only layers -----------------------------------------------------------------------------------------

def asan_layer(run, items, pool):
    tdir = os.path.join(core.TARGET, "asan")
    p = subprocess.run(["cargo", "+nightly", "build", "--offline", "-q", "--manifest-path", os.path.join(core.REPO, "Cargo.toml"), "-p", "brush-shell",
                        "--target", "x86_64-unknown-linux-gnu", "--target-dir", tdir],
                       env=dict(core.CARGO_ENV, RUSTFLAGS="-Zsanitizer=address -Cforce-frame-pointers=yes"), stdout=subprocess.PIPE, stderr=subprocess.STDOUT, text=True)
    binary = os.path.join(tdir, "x86_64-unknown-linux-gnu", "debug", "brush")
    if p.returncode != 0 or not os.path.exists(binary):
        run.count("asan_build_failed")
        run.extra["asan_build_error"] = p.stdout[-800:]
        return
    rng = run.rng("asan")
    sub = list(items)
    rng.shuffle(sub)
    sub = sub[:20000]

    def one(it, r):
        run.evaluations += 1
        run.count("asan_runs")
        m = re.search(rb"ERROR: (AddressSanitizer|LeakSanitizer): ([a-zA-Z-]+)", r.err)
        if m and m.group(2) in (b"failed", b"out", b"hard", b"requested", b"allocation-size-too-big", b"out-of-memory"):
            run.count("asan_runtime_resource_errors")       # the sanitizer runtime itself ran out of memory: inconclusive for that script
            return
        if m and m.group(2) == b"stack-overflow":
            # instrumented frames are several times larger: nesting the plain build handles (and the process-level layer above
            # decides) exhausts the stack here; an artefact of the sanitizer, not a report about the code
            run.count("asan_stack_exhausted_by_instrumented_frames")
            return
        if m:
            frames = re.findall(rb"#\d+ 0x[0-9a-f]+ in (\S+) (/repo/\S+|\S*brush\S*\.rs:\d+)", r.err)
            where = frames[0][1].decode("utf-8", "replace").split("/")[-1] if frames else ""
            sig = "C01|asan|%s|%s" % (m.group(2).decode(), where)
            if run.findings.match_signature(sig.split("|", 1)[1]):
                run.findings.report(run.findings.match_signature(sig.split("|", 1)[1]))
                return
            run.violation(sig[:110], {"kind": "asan", "script": it[1][:2000], "report": core.txt(r.err[-4000:])})

    for it, r in zip(sub, pool_map(pool, [x[1] for x in sub], binary, True)):
        one(it, r)


def miri_layer(run, lines):
    """The parser crate's entry points interpreted by Miri (UB / invalid accesses / leaks in the parsing stack's unsafe code)."""
    import shutil
    hdir = os.path.join(core.VERIF, "miri")
    shutil.copyfile(os.path.join(core.REPO, "Cargo.lock"), os.path.join(hdir, "Cargo.lock"))
    d = core.new_scratch("miri")
    path = os.path.join(d, "lines.hex")
    sel = [l for l in lines if len(l) <= 80]
    n = int(os.environ.get("VERIF_MIRI_LINES", "1600"))
    inproc.write_hex(path, sel[:n])
    env = dict(core.CARGO_ENV, MIRIFLAGS="-Zmiri-disable-isolation")
    base = ["cargo", "+nightly", "miri", "run", "--offline", "-q", "--target-dir", os.path.join(core.TARGET, "miri"), "--"]
    empty = os.path.join(d, "empty.hex")
    open(empty, "w").close()
    p = subprocess.run(base + [empty], cwd=hdir, env=env, stdout=subprocess.PIPE, stderr=subprocess.PIPE, text=True, timeout=3000)
    if p.returncode != 0 or "calls=0" not in p.stdout:
        run.count("miri_build_failed")
        run.extra["miri_note"] = (p.stdout + p.stderr)[-800:]
        core.rmtree(d)
        return
    shards = 16

    def one(k):
        try:
            return subprocess.run(base + [path, str(k), str(shards)], cwd=hdir, env=env, stdout=subprocess.PIPE, stderr=subprocess.PIPE, text=True, timeout=6000)
        except subprocess.TimeoutExpired:
            return None

    for k, p in enumerate(core.pmap(one, list(range(shards)))):
        if p is None:
            run.count("miri_shard_timeout")
            continue
        m = re.search(r"calls=(\d+) lines=(\d+) panics=(\d+) ok_parses=(\d+)", p.stdout)
        if m:
            run.evaluations += int(m.group(1))
            run.count("miri_interpreted_calls", int(m.group(1)))
            run.count("miri_lines", int(m.group(2)))
            run.count("miri_lines_parsed_ok", int(m.group(4)))
            if int(m.group(3)):
                bad = re.findall(r"panic-line=(\w+)", p.stdout)
                run.violation("C01|miri|panic", {"kind": "miri-panic", "lines": [bytes.fromhex(b).decode("utf-8", "replace") for b in bad[:5]]})
        if "Undefined Behavior" in p.stderr or "error: memory leaked" in p.stderr or "error: the evaluated program leaked" in p.stderr:
            run.violation("C01|miri|undefined-behavior", {"kind": "miri", "shard": k, "report": p.stderr[-3000:]})
        elif p.returncode != 0 or not m:
            run.count("miri_shard_error")
            run.extra["miri_note"] = p.stderr[-600:]
    core.rmtree(d)


def replay(path):
    with open(path) as f:
        rp = json.load(f)
    if "script" not in rp:
        return 0
    r = run_hostile("brush", rp["script"])
    kind = classify(r)
    print(json.dumps({"crash": kind, "rc": r.rc, "stderr": core.txt(r.err[-500:])}, indent=1))
    if kind:
        print("VIOLATION property=C01 replay=%s" % path)
        return 1
    return 0
