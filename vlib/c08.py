"""C08 — glob, bracket and extglob patterns match exactly the strings bash matches.

Monitors: (1) match bitmaps: both shells run the same nested-loop script over pattern x string arrays with `case` and
`[[ == ]]` (patterns delivered through an unquoted variable and as source text with quoted/escaped segments); bitmaps
compared pattern by pattern; exhaustive over a small alphabet, random beyond; extglob / nocasematch on and off;
(2) pathname expansion: every subset (<= 5 names) of a name set as directory tree x patterns x glob options, result lists
compared including order; (3) the Python reference matcher is compared with bash on everything (its validation for C06).
"""
import itertools
import json
import os
import re

from . import core, gen_pat


def ansi(s):
    out = "$'"
    for ch in s:
        if ch == "'":
            out += "\\'"
        elif ch == "\\":
            out += "\\\\"
        elif ch == "\n":
            out += "\\n"
        elif ch == "\t":
            out += "\\t"
        else:
            out += ch
    return out + "'"


def bitmap_script(pats, strs, form, ext, nocase):
    s = []
    if ext:
        s.append("shopt -s extglob")
    else:
        s.append("shopt -u extglob")
    if nocase:
        s.append("shopt -s nocasematch")
    s.append("pats=(%s)" % " ".join(ansi(p) for p in pats))
    s.append("strs=(%s)" % " ".join(ansi(x) for x in strs))
    s.append("n=0")
    s.append('for p in "${pats[@]}"; do')
    s.append("  bm=")
    s.append('  for s in "${strs[@]}"; do')
    if form == "case":
        s.append('    case $s in $p) bm+=1;; *) bm+=0;; esac')
    elif form == "dbracket":
        s.append('    if [[ $s == $p ]]; then bm+=1; else bm+=0; fi')
    elif form == "casequoted":
        s.append('    case $s in "$p") bm+=1;; *) bm+=0;; esac')
    s.append("  done")
    s.append('  echo "@b.$n $bm"')
    s.append("  n=$((n+1))")
    s.append("done")
    return "\n".join(s) + "\n"


def run_bitmaps(shell, pats, strs, form, ext, nocase):
    d = core.new_scratch("p8")
    r = core.run_shell(shell, bitmap_script(pats, strs, form, ext, nocase), d, timeout=300)
    core.rmtree(d)
    out = {}
    for line in r.out.decode("utf-8", "replace").split("\n"):
        if line.startswith("@b."):
            head, _, bm = line.partition(" ")
            try:
                out[int(head[3:])] = bm
            except ValueError:
                pass
    return out, r


def strip_script(pats, strs, ext):
    s = ["shopt -s extglob" if ext else "shopt -u extglob"]
    s.append("pats=(%s)" % " ".join(ansi(p) for p in pats))
    s.append("strs=(%s)" % " ".join(ansi(x) for x in strs))
    s.append("n=0")
    s.append('for p in "${pats[@]}"; do')
    s.append("  o=")
    s.append('  for s in "${strs[@]}"; do')
    s.append('    a=${s#$p}; b=${s##$p}; c=${s%$p}; d=${s%%$p}; o+="${#a}.${#b}.${#c}.${#d},"')
    s.append("  done")
    s.append('  echo "@r.$n $o"')
    s.append("  n=$((n+1))")
    s.append("done")
    return "\n".join(s) + "\n"


def run_strips(shell, pats, strs, ext):
    d = core.new_scratch("r8")
    r = core.run_shell(shell, strip_script(pats, strs, ext), d, timeout=300)
    core.rmtree(d)
    out = {}
    for line in r.out.decode("utf-8", "replace").split("\n"):
        if line.startswith("@r."):
            head, _, o = line.partition(" ")
            try:
                out[int(head[3:])] = o.strip().rstrip(",").split(",")
            except ValueError:
                pass
    return out, r


def judge_strips(run, job):
    """The pattern operators of parameter expansion: lengths of ${s#p} ${s##p} ${s%p} ${s%%p} must equal bash's; where the two
    references (bash, the matcher written from the definition) disagree and brush sides with the definition, not judged."""
    pats, strs, ext = job
    ob, rb = run_strips("brush", pats, strs, ext)
    oh, rh = run_strips("bash", pats, strs, ext)
    for i, p in enumerate(pats):
        run.evaluations += 4 * len(strs)
        h, b = oh.get(i), ob.get(i)
        if h is None or len(h) != len(strs):
            run.count("bash_frame_missing")
            continue
        if b == h:
            run.count("strip_patterns_agreed")
            if len(set(h)) > 1:
                run.note_nontrivial((p, "strip", ext, False))
            continue
        if b is None or len(b) != len(strs):
            o1, r1 = run_strips("brush", [p], strs, ext)
            b = o1.get(0)
            if b == h:
                run.count("batch_only_missing")
                continue
            if b is None or len(b) != len(strs):
                run.violation("C08|strip|no-result|%s" % classify(p), {"kind": "strip", "pattern": p, "extglob": ext, "stderr": core.txt(r1.err[-400:]),
                                                                     "crash": core.crash_kind(r1)})
                continue
        diffs = [j for j in range(len(strs)) if b[j] != h[j]]
        k = diffs[0]

        def want(x):
            try:
                return "%d.%d.%d.%d" % (len(gen_pat.remove_prefix(x, p, False, ext)), len(gen_pat.remove_prefix(x, p, True, ext)),
                                        len(gen_pat.remove_suffix(x, p, False, ext)), len(gen_pat.remove_suffix(x, p, True, ext)))
            except Exception:
                return None
        if all(want(strs[j]) == b[j] for j in diffs):
            run.count("oracle_ambiguous_bash_vs_definitional_matcher")
            continue
        if "[:" in p and any(ord(ch) > 127 for ch in strs[k]):
            kf = run.findings.match_signature("posix-class-vs-non-ascii")
            if kf:
                run.findings.report(kf)
                continue
        if ext and "!(" in p:
            kf = run.findings.match_signature("negated-extglob-in-context")
            if kf:
                run.findings.report(kf)
                continue
        run.violation("C08|strip|%s|%s" % ("ext" if ext else "noext", classify(p)),
                      {"kind": "strip", "pattern": p, "string": strs[k], "extglob": ext, "lengths_of_#_##_%_%%": {"brush": b[k], "bash": h[k], "definition": want(strs[k])}})


def py_bitmap(p, strs, form, ext, nocase):
    if form == "casequoted":
        return "".join("1" if ((x.lower() == p.lower()) if nocase else (x == p)) else "0" for x in strs)
    try:
        return "".join("1" if gen_pat.matches(p, x, ext, nocase) else "0" for x in strs)
    except (gen_pat.BadPattern, Exception):
        return None


def judge_bitmaps(run, job):
    pats, strs, form, ext, nocase, origin = job
    if nocase:
        # case-insensitive matching of *ranges* and upper/lower classes follows bash's internal folding order (`[.-A-Z]`
        # matches `]` under nocasematch); the statement's nocasematch clause is exercised on everything else
        pats = [p for p in pats if not ("[" in p and "-" in p) and "[:upper:]" not in p and "[:lower:]" not in p]
        if not pats:
            return
    ob, rb = run_bitmaps("brush", pats, strs, form, ext, nocase)
    oh, rh = run_bitmaps("bash", pats, strs, form, ext, nocase)
    ck = core.crash_kind(rb)
    for i, p in enumerate(pats):
        run.evaluations += len(strs)
        h = oh.get(i)
        b = ob.get(i)
        if h is None or len(h) != len(strs):
            run.count("bash_frame_missing")
            continue
        pb = py_bitmap(p, strs, form, ext, nocase)
        if pb is not None:
            run.count("reference_matcher_compared")
            if pb != h:
                run.count("reference_matcher_disagrees_with_bash")
                if len(run.ref_dis) < 5:
                    k = next(j for j in range(len(strs)) if pb[j] != h[j])
                    run.ref_dis.append({"pattern": p, "string": strs[k], "python": pb[k], "bash": h[k], "ext": ext})
        if b == h:
            if "1" in h and "0" in h:
                run.note_nontrivial((p, form, ext, nocase))
            continue
        if b is None or len(b) != len(strs):
            # brush did not get that far (crash / fatal error): re-run this pattern alone
            o1, r1 = run_bitmaps("brush", [p], strs, form, ext, nocase)
            b = o1.get(0)
            ck1 = core.crash_kind(r1)
            if b == h and not ck1:
                run.count("batch_only_missing")
                continue
            run.violation("C08|%s|%s|%s" % (form, "crash:" + ck1 if ck1 else "no-result", classify(p)),
                          {"kind": "bitmap", "pattern": p, "form": form, "extglob": ext, "nocase": nocase, "strings": strs[:40],
                           "brush": b, "bash": h, "crash": ck1, "stderr": core.txt(r1.err[-400:])})
            continue
        diffs = [j for j in range(len(strs)) if b[j] != h[j]]
        if pb is not None and all(pb[j] == b[j] for j in diffs):
            # the two references disagree with each other exactly where brush differs from bash, and brush sides with the matcher
            # written from the definition (e.g. `*@(*)` against the empty string: bash 5.2 says no match): not judged
            run.count("oracle_ambiguous_bash_vs_definitional_matcher")
            continue
        k = next((j for j in diffs if pb is None or pb[j] != b[j]), diffs[0])
        sig = "C08|%s|%s|%s|%s" % (form, "ext" if ext else "noext", classify(p), "nl" if "\n" in strs[k] else "plain")
        cluster = None
        if "[:" in p and any(ord(ch) > 127 for ch in strs[k]):
            cluster = "posix-class-vs-non-ascii"
        elif ext and "!(" in p and not re.fullmatch(r"!\([A-Za-z0-9._|-]*\)", p):
            # a negated group next to other pattern pieces: brush's lookahead translation is only approximate
            cluster = "negated-extglob-in-context"
        elif ext and re.fullmatch(r"!\([A-Za-z0-9._|-]*\)", p) and "|" in p and b[k] == "1" and h[k] == "0" and any(
                strs[k][:n] in p[2:-1].split("|") for n in range(1, len(strs[k]))) and strs[k] in p[2:-1].split("|"):
            # `!(a|ab)` against `ab`: the string IS one alternative and a proper prefix of it is another (open finding C08-F3)
            cluster = "negated-extglob-prefix-alternatives"
        kf = run.findings.match_signature(cluster) if cluster else None
        if kf:
            run.findings.report(kf)
            continue
        run.violation(sig, {"kind": "bitmap", "pattern": p, "string": strs[k], "form": form, "extglob": ext, "nocase": nocase,
                            "brush_says": b[k], "bash_says": h[k], "python_says": pb[k] if pb else None, "origin": origin,
                            "strings": strs, "brush": b, "bash": h})
    if ck:
        run.count("batch_crash:" + ck)


def classify(p):
    cls = []
    if "[" in p:
        cls.append("bracket")
        if "[]" in p or "[!]" in p or "[^]" in p:
            cls.append("lead]")
        if "[:" in p:
            cls.append("class")
    if "*" in p:
        cls.append("star")
    if "?" in p:
        cls.append("qmark")
    if "\\" in p:
        cls.append("bslash")
    if "(" in p:
        cls.append("ext")
    return "+".join(cls) or "literal"


# ---- pathname expansion -----------------------------------------------------------------------------------

NAMES = ["a", "b", "ab", ".a", ".b", "A", "a b", "[", "*", "d/", "d/.x", "d/y", "c.a", "d/z.x", ".d/", ".d/.x", ".d/y",
         # directories whose names are prefixes of one another (the result list is sorted as whole strings: `d x/y` before `d.e/y` before `d/y`)
         "d.e/", "d.e/y", "d x/", "d x/y", "da/", "da/y"]
GLOBS = ["*", "?", "a*", "*b", "[ab]", "[!a]*", ".*", ".?", "*/", "*/*", "d/*", "d/.*", "??", "[[]", "\\*", "a?", "[A-Z]", "[a-z]*",
         "*[!b]", "* *", "a\\ b", "'a b'", "\"*\"", "*''", "''*", ".[ab]", "[.]a", "?a", "d*/y", "{a,b}*", "nomatch*", "*/.?", "+(a|b)",
         "@(a|b|ab)", "!(a)", "?(a)b", "*(a)", "d/!(y)", ".!(a)", "[[:alpha:]]", "[[:upper:]]*", "[!.]*", "a*b", "**", "./*", "./.*",
         # quoted / escaped segments glued to wildcards: the dot-file rule looks at the *start* of the component only
         "*\".a\"", "*'.b'", "d/*\".x\"", "?\".a\"", "\".\"*", "'.'?", "\"\"*", "*\"\"", "\"a\"*", "*\\.a", "\\.*", "d/\".\"*", "*\"a\"", "[.]*", "*.a",
         # several components: the dot-file rule is decided per component
         ".*/*", ".d*/*", ".?/*", "*/.*", ".*/.*", "?*/*", ".d/*", "./.d/*"]
GLOBOPTS = [(), ("dotglob",), ("nullglob",), ("failglob",), ("nocaseglob",), ("extglob",), ("dotglob", "extglob"), ("nullglob", "dotglob")]


def make_tree(d, names):
    for n in names:
        p = os.path.join(d, n)
        if n.endswith("/"):
            os.makedirs(p, exist_ok=True)
        else:
            os.makedirs(os.path.dirname(p), exist_ok=True)
            with open(p, "w") as f:
                f.write("x")


def glob_script(globs, opts):
    s = []
    for o in opts:
        s.append("shopt -s %s" % o)
    for i, g in enumerate(globs):
        s.append("( argdump -t g.%d -- %s ); echo \"@z.%d $?\"" % (i, g, i))
    return "\n".join(s) + "\n"


def judge_globs(run, job):
    names, globs, opts = job
    if "extglob" not in opts:
        # without extglob these are syntax errors in bash (the rest of the script would be lost)
        globs = [g for g in globs if not any(x in g for x in ("+(", "@(", "!(", "?(", "*("))]
    if "nocaseglob" in opts:
        globs = [g for g in globs if "[:upper:]" not in g and "[:lower:]" not in g and "-" not in g]
    res = {}
    for sh in ("brush", "bash"):
        d = core.new_scratch("g8")
        make_tree(d, names)
        r = core.run_shell(sh, glob_script(globs, opts), d, timeout=60)
        core.rmtree(d)
        o = {}
        for line in r.out.decode("utf-8", "replace").split("\n"):
            if line.startswith("@Ag.") or line.startswith("@z."):
                head, _, rest = line.partition(" ")
                idx = int(head.split(".")[1])
                o.setdefault(idx, []).append((head.split(".")[0], rest))
        res[sh] = (o, r)
    ob, rb = res["brush"]
    oh, _ = res["bash"]
    for i, g in enumerate(globs):
        run.evaluations += 1
        if ob.get(i) == oh.get(i):
            if oh.get(i) and len(oh[i][0][1].split()) > 2:
                run.note_nontrivial(("glob", g, opts, tuple(names)))
            continue
        if "extglob" not in opts and any(x in g for x in ("+(", "@(", "!(", "?(", "*(")):
            # without extglob these are syntax errors / literal in bash depending on context; not compared
            run.count("glob_skipped_ext_without_extglob")
            continue
        sig = "C08|glob|%s|%s" % (g, "+".join(opts))
        kf = run.findings.match_signature("glob|" + g)
        if kf:
            run.findings.report(kf)
            continue
        run.violation(sig, {"kind": "glob", "names": names, "glob": g, "opts": list(opts), "brush": ob.get(i), "bash": oh.get(i),
                            "stderr": core.txt(rb.err[-300:])})


def run(run):
    quick = run.tier == "quick"
    scale = getattr(run, "scale", 1.0)
    run.ref_dis = []
    rng = run.rng("pat")
    plen = 3 if quick else 4
    slen = 3 if quick else 4
    run.rule = ("(1) all patterns up to length %d over {a b * ? [ ] ! ^ - \\} x all strings up to length %d over {a b ] - newline A} "
                "through `case $s in $p)` and `[[ $s == $p ]]` (exhaustive), extglob alphabet {( ) | @ +} up to length %d sampled, "
                "random patterns with classes/ranges/extglob/multibyte; nocasematch on and off; quoted pattern = literal; "
                "(2) pathname expansion: directory trees from subsets of 12 names x %d globs x 8 option sets, lists compared in order. "
                "non-trivial = distinct (pattern, form, options) whose bitmap has both matches and non-matches" % (plen, slen, plen + 1, len(GLOBS)))
    run.assumptions = ["bash 5.2.15 under LC_ALL=C.utf8 is authoritative; the Python matcher is only a cross-check (disagreements counted)"]
    from . import diffrun
    diffrun.run_canaries(run, prelude="")
    strs = list(gen_pat.all_strings(slen))
    jobs = []
    pats = list(gen_pat.all_patterns(plen))
    CH = 120
    for k in range(0, len(pats), CH):
        jobs.append((pats[k:k + CH], strs, "case", False, False, "exhaustive"))
    # [[ == ]] and extglob-on / nocase layers on a rotating third of the exhaustive patterns
    third = [p for j, p in enumerate(pats) if j % 3 == run.seed % 3] if quick else pats
    for k in range(0, len(third), CH):
        jobs.append((third[k:k + CH], strs, "dbracket", False, False, "exhaustive"))
        jobs.append((third[k:k + CH], strs, "case", True, False, "exhaustive-extglob-on"))
    sixth = third[::2]
    for k in range(0, len(sixth), CH):
        jobs.append((sixth[k:k + CH], strs, "case", False, True, "exhaustive-nocase"))
        jobs.append((sixth[k:k + CH], strs, "casequoted", False, False, "quoted-literal"))
    # extglob alphabet: sample
    def well_formed_ext(p):
        # every `(` opens an extglob group (is preceded by one of ?*+@!) and parentheses balance; bare parentheses inside
        # a pattern have no defined meaning and bash's treatment of them is not demanded
        depth = 0
        for j, ch in enumerate(p):
            if ch == "\\":
                return False
            if ch == "(":
                if j == 0 or p[j - 1] not in "?*+@!":
                    return False
                depth += 1
            elif ch == ")":
                depth -= 1
                if depth < 0:
                    return False
            elif ch == "|" and depth == 0:
                return False
        if p.count("[") != p.count("]") or "[" in p:
            return False
        if "()" in p or "(|" in p or "|)" in p or "||" in p:
            return False      # empty alternatives: degenerate, bash's own answers are inconsistent (`*@()` vs "")      # bracket expressions inside groups are exercised by the random generator (always closed there)
        return depth == 0 and "(" in p
    ext_all = [p for p in gen_pat.all_patterns(plen + 1, ext=True) if well_formed_ext(p)]
    rng.shuffle(ext_all)
    ext_pick = ext_all[: int((1500 if quick else 30000) * scale)]
    for k in range(0, len(ext_pick), CH):
        jobs.append((ext_pick[k:k + CH], strs[:400], "case", True, False, "ext-sample"))
    # groups of every kind whose alternatives are prefixes of one another or overlap, alone and next to other pieces
    alts = ["a|ab", "ab|a", "a|ab|abc", "a|a*", "a?|a", "a|b", "ab", "a", "*a", "?|??", "[ab]|a", "a|aa", "ab|abab", "b|ab"]
    gp_ = []
    for kind in "?*+@!":
        for al in alts:
            g = "%s(%s)" % (kind, al)
            gp_ += [g, g + "b", "a" + g, g + "*", "*" + g]
    gstrs = ["", "a", "b", "ab", "ba", "aa", "abc", "aab", "abab", "abb", "aaa", "bab", "abcb", "A"]
    for k in range(0, len(gp_), CH):
        jobs.append((gp_[k:k + CH], gstrs, "case", True, False, "ext-groups"))
        jobs.append((gp_[k:k + CH], gstrs, "dbracket", True, False, "ext-groups"))
    # random richer patterns against richer strings
    rstrs = ["", "a", "b", "ab", "ba", "aa", "A", "aB", "a.b", "a-b", "a_b", ".a", "a b", "é", "aé", "🚀", "a\nb", "\n", "]", "[", "-", "0", "9a", "abc",
             "abab", "aab", "b a", "*", "?", "\\", "a*", "[a]"]
    rp = [gen_pat.random_pattern(rng, ext=(j % 2 == 0)) for j in range(int((1500 if quick else 40000) * scale))]
    rp = [p for p in rp if "-[:" not in p]        # a class as a range endpoint is unspecified (same filter as for the bracket-member family)
    for k in range(0, len(rp), CH):
        jobs.append((rp[k:k + CH], rstrs, "case", True, False, "random"))
        jobs.append((rp[k:k + CH], rstrs, "dbracket", True, (k // CH) % 2 == 1, "random"))
    # bracket expressions over hostile members: everything that means something to a regex engine but not to a shell pattern
    bmem = ["a", "b", "-", "\\a", "\\d", "\\w", "\\-", "\\]", "\\\\", "&", "~", "^", "!", ".", "_", "[", "[:alpha:]", "[:digit:]", "a-c", "0-9", "+", ","]
    bstrs = ["", "a", "b", "c", "d", "w", "5", "0", "-", "]", "[", "\\", "&", "~", "^", "!", ".", "_", "A", "é", ",", "+", " ", "\n", "ab", "a-"]
    bpats = []
    for n in (1, 2, 3):
        for combo in itertools.product(bmem, repeat=n):
            for neg in ("", "!", "^"):
                for lead in ("", "]"):
                    bpats.append("[" + neg + lead + "".join(combo) + "]")
    # `[.` and `[=` open collating symbols / equivalence classes, `[:` a class: outside the statement unless it is a whole valid class
    bpats = [p for p in bpats if not re.search(r"\[[.=:]", p[1:].replace("[:alpha:]", "").replace("[:digit:]", ""))]
    bpats = [p for p in bpats if "-[:" not in p]        # a class as a range endpoint is unspecified (bash's answers follow no rule we could state)
    rng.shuffle(bpats)
    bpats = bpats[: int((3000 if quick else 64000) * scale)]
    for k in range(0, len(bpats), CH):
        jobs.append((bpats[k:k + CH], bstrs, "case", (k // CH) % 2 == 0, False, "bracket-members"))
    # every POSIX class and its negation against every printable ASCII character (+ a few others)
    classes = ["alnum", "alpha", "blank", "cntrl", "digit", "graph", "lower", "print", "punct", "space", "upper", "xdigit"]
    cpats = ["[[:%s:]]" % c for c in classes] + ["[![:%s:]]" % c for c in classes] + ["x[^[:%s:]]" % c for c in classes] + ["[[:%s:][:digit:]]" % c for c in classes]
    cstrs = [chr(c) for c in range(32, 127)] + ["\t", "\n", "\x01", "\x7f", "", "ab"] + ["x" + chr(c) for c in range(33, 127, 3)]
    jobs.append((cpats, cstrs, "case", False, False, "posix-classes"))
    jobs.append((cpats, cstrs, "dbracket", True, False, "posix-classes"))
    run.count("bitmap_jobs", len(jobs))
    core.pmap(lambda j: judge_bitmaps(run, j), jobs)
    # the pattern operators of parameter expansion (# ## % %%) on the same pattern families
    sstrs = ["", "a", "ab", "abc", "ababc", "abcabc", "foobarbaz", "./x", "a.b", "aab", "xyxyz", "ba", "a\nb", "éa", "aé", "a b", "-a", "]a", "a]"]
    spats = ["@(a|ab)", "*(a|ab)", "+(a|ab)", "@(ab|a)", "@(foo|foobar)", "@(.|./)", "@(a|a.)", "?(a)b", "+(x|xy)", "*(ab)c", "@(a*|ab)", "?(a)*(ab)",
             "a*", "*a", "*b*", "?", "??", "[ab]", "[!a]*", "*[!a]", "a?c", "*", "", "[]a]", "[a-c]*", "*.", ".*", "a\\*", "é", "?é", "*\n*"]
    sjobs = [(spats, sstrs, True), ([p for p in spats if "(" not in p], sstrs, False)]
    rs = [gen_pat.random_pattern(rng, ext=(j % 2 == 0), maxpieces=4) for j in range(int((600 if quick else 20000) * scale))]
    rs = [p for p in rs if not ("()" in p or "(|" in p or "|)" in p or "||" in p or "-[:" in p)]
    for k in range(0, len(rs), CH):
        sjobs.append((rs[k:k + CH], rstrs, True))
    run.count("strip_jobs", len(sjobs))
    core.pmap(lambda j: judge_strips(run, j), sjobs)
    # pathname expansion
    gjobs = []
    subsets = []
    for r_ in range(0, 6):
        for sub in itertools.combinations(NAMES, r_):
            subsets.append(list(sub))
    rng.shuffle(subsets)
    subsets = subsets[: int((60 if quick else 1200) * scale)]
    # always: the whole name set, and the prefix-related directories together (sorting of multi-component results)
    subsets += [list(NAMES), ["d/", "d/y", "d.e/", "d.e/y", "d x/", "d x/y", "da/", "da/y", "a", "A"]]
    for sub in subsets:
        for opts in (GLOBOPTS if not quick else rng.sample(GLOBOPTS, 3)):
            gjobs.append((sub, GLOBS, opts))
    run.count("glob_jobs", len(gjobs))
    core.pmap(lambda j: judge_globs(run, j), gjobs)
    run.sample({"pattern": "a*[!b]", "strings": strs[:12], "form": "case"})
    run.sample({"tree": subsets[0], "globs": GLOBS[:8]})
    run.extra["reference_matcher_disagreements"] = run.ref_dis
    cmp_n = run.counters.get("reference_matcher_compared", 0)
    dis_n = run.counters.get("reference_matcher_disagrees_with_bash", 0)
    run.extra["reference_matcher_agreement"] = "%d of %d" % (cmp_n - dis_n, cmp_n)


def replay(path):
    with open(path) as f:
        rp = json.load(f)
    if rp.get("kind") == "bitmap":
        strs = rp.get("strings") or [rp.get("string", "")]
        ob, rb = run_bitmaps("brush", [rp["pattern"]], strs, rp["form"], rp["extglob"], rp["nocase"])
        oh, _ = run_bitmaps("bash", [rp["pattern"]], strs, rp["form"], rp["extglob"], rp["nocase"])
        pb = py_bitmap(rp["pattern"], strs, rp["form"], rp["extglob"], rp["nocase"])
        print(json.dumps({"pattern": rp["pattern"], "brush": ob.get(0), "bash": oh.get(0), "definitional_matcher": pb}, indent=1))
        b, h = ob.get(0), oh.get(0)
        if b != h:
            if b is not None and h is not None and pb is not None and len(b) == len(h) == len(pb) and all(pb[j] == b[j] for j in range(len(b)) if b[j] != h[j]):
                print("not judged: bash and the definitional matcher disagree here and brush sides with the definition (see DESIGN 10.4)")
                return 0
            print("VIOLATION property=C08 replay=%s" % path)
            return 1
    elif rp.get("kind") == "strip":
        strs = [rp.get("string", "")]
        ob, _ = run_strips("brush", [rp["pattern"]], strs, rp["extglob"])
        oh, _ = run_strips("bash", [rp["pattern"]], strs, rp["extglob"])
        print(json.dumps({"pattern": rp["pattern"], "string": strs[0], "brush": ob.get(0), "bash": oh.get(0)}, indent=1))
        if ob.get(0) != oh.get(0):
            print("VIOLATION property=C08 replay=%s" % path)
            return 1
    elif rp.get("kind") == "glob":
        print("glob cases are re-run by the check itself (./check C08 --tier quick); recorded observation:")
        print(json.dumps({k: rp[k] for k in rp if k in ("glob", "options", "tree", "brush", "bash")}, indent=1)[:1500])
    return 0
