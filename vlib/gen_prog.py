"""Typed grammar of control-flow programs (structured trees) + renderer.

Nodes are tuples:
  ('leaf', marker, status)            e M S        status: int | '$i' style expression string
  ('seq', [n...])
  ('and', a, b) ('or', a, b) ('not', a)
  ('if', cond, then, [(cond, then)...], else|None)
  ('while', cond, body, k) ('until', cond, body, k)      k = iteration bound
  ('for', var, [words], body)
  ('cfor', var, n, body)
  ('case', word, [([patterns], body, term)...])
  ('group', body) ('subshell', body)
  ('call', fname)                    (function table is separate: {fname: body})
  ('ctl', kw, n|None)                break/continue/return/exit
  ('pipe', [n...])                   pipeline of nodes (each stage a simple node)
  ('assignfail',)                    etc. are property specific and rendered by hooks
Every statement in a seq is followed by a `$?` probe when probes=True.
"""

PRELUDE = r'''e() { echo "@m $1"; return $2; }
'''

# Variant whose markers and probes bypass pipes and command substitutions (fd 3 = the script's stdout), used where
# programs contain pipelines / $( ): every marker stays observable and stage order is made deterministic by draining stdin.
PRELUDE3 = r'''exec 3>&1
e() { echo "@m $1" >&3; return $2; }
'''
STYLE = {"probe": 'echo "@? $?"', "case_paren": False}
# A probe that reports `$?` and hands the same status on, so the status of a list is still that of its last real command
# (an `echo` probe makes every body end with status 0 and hides the status a compound command derives from its body).
PRELUDE_KEEP = PRELUDE + 'p() { local s=$?; echo "@? $s"; return $s; }\n'
PROBE_KEEP = "p"


class Gen:
    def __init__(self, rng, max_depth=4, max_nodes=30, constructs=None, allow_ctl=True, funcs=True,
                 statuses=(0, 1, 3), avoid=None):
        self.rng = rng
        self.max_depth = max_depth
        self.max_nodes = max_nodes
        self.nodes = 0
        self.marker = 0
        self.loopvar = 0
        self.constructs = constructs or ["leaf", "and", "or", "not", "if", "while", "until", "for", "cfor",
                                         "case", "group", "subshell", "call", "ctl"]
        self.allow_ctl = allow_ctl
        self.use_funcs = funcs
        self.funcs = {}
        self.statuses = statuses
        self.avoid = avoid or set()
        self.features = set()

    def m(self):
        self.marker += 1
        return "m%d" % self.marker

    def leaf(self, ctx):
        st = self.rng.choice(self.statuses)
        if ctx.get("loopvars") and self.rng.random() < 0.3:
            v = self.rng.choice(ctx["loopvars"])
            st = "$((%s %% 2))" % v if self.rng.random() < 0.5 else "$((%s == 2))" % v
        return ("leaf", self.m(), st)

    def seq(self, depth, ctx, maxlen=3):
        n = self.rng.randint(1, maxlen)
        return ("seq", [self.node(depth, ctx) for _ in range(n)])

    def node(self, depth, ctx):
        self.nodes += 1
        if depth >= self.max_depth or self.nodes >= self.max_nodes:
            return self.leaf(ctx)
        r = self.rng
        kind = r.choice(self.constructs)
        if kind == "ctl" and (not self.allow_ctl or r.random() < 0.3):
            kind = "leaf"
        d = depth + 1
        self.features.add(kind)
        if kind == "leaf":
            return self.leaf(ctx)
        if kind in ("and", "or"):
            if r.random() < 0.15:
                # the right operand reports the `$?` it starts with: what `a && echo $?` / `! a || echo $?` print
                return (kind, self.node(d, ctx), ("raw", 'echo "@q $?"'))
            return (kind, self.node(d, ctx), self.node(d, ctx))
        if kind == "not":
            return ("not", self.node(d, ctx))
        if kind == "if":
            elifs = [(self.cond(d, ctx), self.seq(d, ctx, 2)) for _ in range(r.choice([0, 0, 1, 2]))]
            els = self.seq(d, ctx, 2) if r.random() < 0.5 else None
            return ("if", self.cond(d, ctx), self.seq(d, ctx, 2), elifs, els)
        if kind in ("while", "until"):
            self.loopvar += 1
            v = "i%d" % self.loopvar
            c2 = dict(ctx, loopdepth=ctx.get("loopdepth", 0) + 1, loopvars=ctx.get("loopvars", []) + [v], in_sub_loop=False)
            return (kind, v, self.cond(d, c2), self.seq(d, c2, 3), r.choice([1, 2, 3]))
        if kind == "for":
            self.loopvar += 1
            v = "i%d" % self.loopvar
            c2 = dict(ctx, loopdepth=ctx.get("loopdepth", 0) + 1, loopvars=ctx.get("loopvars", []) + [v], in_sub_loop=False)
            words = r.choice([[], ["1"], ["1", "2"], ["1", "2", "3"]])
            return ("for", v, words, self.seq(d, c2, 3))
        if kind == "cfor":
            self.loopvar += 1
            v = "i%d" % self.loopvar
            c2 = dict(ctx, loopdepth=ctx.get("loopdepth", 0) + 1, loopvars=ctx.get("loopvars", []) + [v], in_sub_loop=False)
            return ("cfor", v, r.choice([0, 1, 2, 3]), self.seq(d, c2, 3))
        if kind == "case":
            word = r.choice(["a", "b", "ab", "c"])
            if ctx.get("loopvars") and r.random() < 0.4:
                word = "$" + r.choice(ctx["loopvars"])
            items = []
            for _ in range(r.randint(1, 3)):
                pats = r.sample(["a", "b", "a*", "*b", "?", "*", "c", "1", "2", "[12]"], r.choice([1, 1, 2]))
                # (an item may have no commands at all: `b) ;;` - its status is 0, also when a failing item fell through into it)
                body = ("seq", []) if r.random() < 0.15 else self.seq(d, ctx, 2)
                items.append((pats, body, r.choice([";;", ";;", ";&", ";;&"])))
            return ("case", word, items)
        if kind == "group":
            return ("group", self.seq(d, ctx, 3))
        if kind == "subshell":
            c2 = dict(ctx, in_subshell=True, sub_loopdepth=ctx.get("loopdepth", 0))
            return ("subshell", self.seq(d, c2, 3))
        if kind == "call":
            if not self.use_funcs or ctx.get("fdepth", 0) >= 2:
                return self.leaf(ctx)
            name = "f%d" % (len(self.funcs) + 1)
            self.funcs[name] = None  # reserve
            c2 = {"fdepth": ctx.get("fdepth", 0) + 1, "in_func": True, "loopdepth": 0, "loopvars": [],
                  "caller_loopdepth": ctx.get("loopdepth", 0)}
            self.funcs[name] = self.seq(d, c2, 3)
            return ("call", name)
        if kind == "ctl":
            return self.ctl(ctx)
        return self.leaf(ctx)

    def cond(self, depth, ctx):
        r = self.rng
        if r.random() < 0.6 or depth >= self.max_depth:
            return self.leaf(ctx)
        return self.node(depth, ctx)

    def ctl(self, ctx):
        r = self.rng
        ld = ctx.get("loopdepth", 0)
        choices = []
        if ld > 0:
            choices += ["break", "continue"] * 3
        if ctx.get("in_func"):
            choices += ["return"] * 2
        choices += ["exit"]
        if "ctl_outside" not in self.avoid:
            choices += ["break", "continue", "return"]
        kw = r.choice(choices)
        if kw in ("break", "continue"):
            if ld == 0 and "ctl_outside" in self.avoid:
                return self.leaf(ctx)
            opts = [None, 1]
            if ld >= 2:
                opts += [2, 2]
            if ld >= 3:
                opts += [3]
            if "level_beyond" not in self.avoid:
                opts += [ld + 1, 9]
            n = r.choice(opts)
            self.features.add("%s:%s/%d" % (kw, n, ld))
            return ("ctl", kw, n)
        if kw == "return":
            if not ctx.get("in_func") and "ctl_outside" in self.avoid:
                return self.leaf(ctx)
            n = r.choice([None, 0, 1, 3, 7])
            return ("ctl", kw, n)
        n = r.choice([None, 0, 1, 4])
        return ("ctl", "exit", n)


def render(node, probes=True, ind=0, style=None):
    """Render a node to shell text (a list element or compound)."""
    sp = "  " * ind
    k = node[0]
    if k == "leaf":
        return "e %s %s" % (node[1], node[2])
    if k == "seq":
        out = []
        for n in node[1]:
            out.append(render(n, probes, ind))
            if probes and n[0] != "ctl":
                out.append(probes if isinstance(probes, str) else STYLE["probe"])
        return ("\n" + sp).join(out)
    if k in ("and", "or"):
        # && and || are left-associative with equal precedence: a left operand that is itself an and-or list is
        # rendered flat (`a && b || c`), which is how multi-operand chains are written; a right operand needs braces.
        left = render(node[1], probes, ind) if node[1][0] in ("and", "or") else render_op(node[1], probes, ind)
        return "%s %s %s" % (left, "&&" if k == "and" else "||", render_op(node[2], probes, ind))
    if k == "not":
        return "! %s" % render_op(node[1], probes, ind, in_not=True)
    if k == "if":
        s = "if %s; then\n%s  %s\n" % (render_cond(node[1], probes, ind), sp, render(node[2], probes, ind + 1))
        for c, b in node[3]:
            s += "%selif %s; then\n%s  %s\n" % (sp, render_cond(c, probes, ind), sp, render(b, probes, ind + 1))
        if node[4] is not None:
            s += "%selse\n%s  %s\n" % (sp, sp, render(node[4], probes, ind + 1))
        return s + sp + "fi"
    if k in ("while", "until"):
        v, cond, body, bound = node[1], node[2], node[3], node[4]
        guard = "[ $((%s+=1)) -le %d ]" % (v, bound)
        if k == "while":
            c = "%s && %s" % (guard, render_op(cond, probes, ind))
        else:
            c = "! %s || %s" % (guard, render_op(cond, probes, ind))
        return "%s=0\n%s%s %s; do\n%s  %s\n%sdone" % (v, sp, k, c, sp, render(body, probes, ind + 1), sp)
    if k == "for":
        return "for %s in %s; do\n%s  %s\n%sdone" % (node[1], " ".join(node[2]), sp, render(node[3], probes, ind + 1), sp)
    if k == "cfor":
        v = node[1]
        return "for ((%s=1; %s<=%d; %s++)); do\n%s  %s\n%sdone" % (v, v, node[2], v, sp, render(node[3], probes, ind + 1), sp)
    if k == "case":
        s = "case %s in\n" % node[1]
        for pats, body, term in node[2]:
            s += "%s  %s%s)\n%s    %s\n%s    %s\n" % (sp, "(" if STYLE["case_paren"] else "", "|".join(pats), sp,
                                                    render(body, probes, ind + 2), sp, term)
        return s + sp + "esac"
    if k == "group":
        return "{\n%s  %s\n%s}" % (sp, render(node[1], probes, ind + 1), sp)
    if k == "subshell":
        return "(\n%s  %s\n%s)" % (sp, render(node[1], probes, ind + 1), sp)
    if k == "call":
        return node[1]
    if k == "ctl":
        return node[1] if node[2] is None else "%s %s" % (node[1], node[2])
    if k == "raw":
        return node[1]
    if k == "wrap":
        inner = render(node[3], probes, ind + 1)
        if node[1] == "eval":
            inner = render(node[3], probes, 0)
        return node[2].replace("{}", inner)
    if k == "pipe":
        parts = []
        for i, n in enumerate(node[1]):
            t = render_op(n, probes, ind)
            if i > 0:
                # later stages wait for EOF from the previous one: deterministic marker order, no SIGPIPE races
                t = "{ cat >/dev/null; %s\n%s}" % (t, "  " * ind)
            parts.append(t)
        return " | ".join(parts)
    raise ValueError(k)


def render_op(node, probes, ind, in_not=False):
    """Operand of && || ! or a pipeline stage: compound things are fine as-is; lists need braces."""
    if node[0] in ("and", "or", "seq", "not", "while", "until"):
        return "{ %s\n%s}" % (render(node, probes, ind), "  " * ind)
    if node[0] == "ctl":
        return render(node, probes, ind)
    return render(node, probes, ind)


def render_cond(node, probes, ind):
    return render_op(node, probes, ind)


def render_program(gen_funcs, body, probes=True, prelude=PRELUDE):
    s = prelude
    for name, fb in gen_funcs.items():
        s += "%s() {\n  %s\n}\n" % (name, render(fb, probes, 1))
    s += render(body, probes, 0) + "\n"
    if probes:
        s += 'echo "@end $?"\n'
    return s


def walk(node):
    yield node
    k = node[0]
    if k == "seq":
        for n in node[1]:
            yield from walk(n)
    elif k in ("and", "or"):
        yield from walk(node[1])
        yield from walk(node[2])
    elif k == "not":
        yield from walk(node[1])
    elif k == "if":
        yield from walk(node[1])
        yield from walk(node[2])
        for c, b in node[3]:
            yield from walk(c)
            yield from walk(b)
        if node[4] is not None:
            yield from walk(node[4])
    elif k in ("while", "until"):
        yield from walk(node[2])
        yield from walk(node[3])
    elif k in ("for", "cfor"):
        yield from walk(node[3])
    elif k == "case":
        for _, b, _ in node[2]:
            yield from walk(b)
    elif k in ("group", "subshell"):
        yield from walk(node[1])
    elif k == "pipe":
        for n in node[1]:
            yield from walk(n)
    elif k == "wrap":
        yield from walk(node[3])


def shrink_candidates(node):
    """Yield structurally smaller variants of node (one step)."""
    k = node[0]
    if k == "leaf":
        if node[2] != 0:
            yield ("leaf", node[1], 0)
        return
    if k == "seq":
        items = node[1]
        if len(items) > 1:
            for i in range(len(items)):
                yield ("seq", items[:i] + items[i + 1:])
        for i, n in enumerate(items):
            for c in shrink_candidates(n):
                yield ("seq", items[:i] + [c] + items[i + 1:])
        return
    # replace by a child
    children = []
    if k in ("and", "or"):
        children = [node[1], node[2]]
    elif k == "not":
        children = [node[1]]
    elif k == "if":
        children = [node[1], node[2]] + [b for _, b in node[3]] + ([node[4]] if node[4] else [])
    elif k in ("while", "until"):
        children = [node[3]]
    elif k in ("for", "cfor"):
        children = [node[3]]
    elif k == "case":
        children = [b for _, b, _ in node[2]]
    elif k in ("group", "subshell"):
        children = [node[1]]
    elif k == "wrap":
        children = [node[3]]
    elif k == "pipe":
        children = list(node[1])
    for c in children:
        yield c
    yield ("leaf", "mx", 0)
    yield ("leaf", "mx", 1)
    # shrink inside
    if k in ("and", "or"):
        for c in shrink_candidates(node[1]):
            yield (k, c, node[2])
        for c in shrink_candidates(node[2]):
            yield (k, node[1], c)
    elif k == "not":
        for c in shrink_candidates(node[1]):
            yield ("not", c)
    elif k == "if":
        if node[3]:
            yield ("if", node[1], node[2], [], node[4])
        if node[4] is not None:
            yield ("if", node[1], node[2], node[3], None)
        for c in shrink_candidates(node[1]):
            yield ("if", c, node[2], node[3], node[4])
        for c in shrink_candidates(node[2]):
            yield ("if", node[1], c, node[3], node[4])
        for i, (cc, bb) in enumerate(node[3]):
            for c in shrink_candidates(bb):
                yield ("if", node[1], node[2], node[3][:i] + [(cc, c)] + node[3][i + 1:], node[4])
        if node[4] is not None:
            for c in shrink_candidates(node[4]):
                yield ("if", node[1], node[2], node[3], c)
    elif k in ("while", "until"):
        if node[4] > 1:
            yield (k, node[1], node[2], node[3], node[4] - 1)
        for c in shrink_candidates(node[2]):
            yield (k, node[1], c, node[3], node[4])
        for c in shrink_candidates(node[3]):
            yield (k, node[1], node[2], c, node[4])
    elif k == "for":
        if len(node[2]) > 1:
            yield ("for", node[1], node[2][:-1], node[3])
        for c in shrink_candidates(node[3]):
            yield ("for", node[1], node[2], c)
    elif k == "cfor":
        if node[2] > 1:
            yield ("cfor", node[1], node[2] - 1, node[3])
        for c in shrink_candidates(node[3]):
            yield ("cfor", node[1], node[2], c)
    elif k == "case":
        items = node[2]
        if len(items) > 1:
            for i in range(len(items)):
                yield ("case", node[1], items[:i] + items[i + 1:])
        for i, (p, b, t) in enumerate(items):
            for c in shrink_candidates(b):
                yield ("case", node[1], items[:i] + [(p, c, t)] + items[i + 1:])
            if t != ";;":
                yield ("case", node[1], items[:i] + [(p, b, ";;")] + items[i + 1:])
    elif k in ("group", "subshell"):
        for c in shrink_candidates(node[1]):
            yield (k, c)
    elif k == "wrap":
        for c in shrink_candidates(node[3]):
            yield ("wrap", node[1], node[2], c)
    elif k == "pipe":
        st = node[1]
        if len(st) > 2:
            for i in range(len(st)):
                yield ("pipe", st[:i] + st[i + 1:])
        for i, n in enumerate(st):
            for c in shrink_candidates(n):
                yield ("pipe", st[:i] + [c] + st[i + 1:])


def shrink(body, funcs, still_fails, budget=150):
    """Greedy tree shrinking of (body, funcs) while still_fails(body, funcs) holds."""
    changed = True
    while changed and budget > 0:
        changed = False
        for c in shrink_candidates(body):
            budget -= 1
            if budget <= 0:
                break
            if still_fails(c, funcs):
                body = c
                changed = True
                break
        if changed:
            continue
        for name in list(funcs):
            used = any(n[0] == "call" and n[1] == name for n in walk(body)) or any(
                n[0] == "call" and n[1] == name for f in funcs.values() for n in walk(f))
            if not used:
                f2 = dict(funcs)
                del f2[name]
                funcs = f2
                continue
            for c in shrink_candidates(funcs[name]):
                budget -= 1
                if budget <= 0:
                    break
                f2 = dict(funcs)
                f2[name] = c
                if still_fails(body, f2):
                    funcs = f2
                    changed = True
                    break
            if changed:
                break
    return body, funcs
