"""C15 — a program means the same however it is delivered and whatever was parsed before.

Monitors: (a) delivery modes: generated multi-line programs (layout variants: blank lines, comments, continuations,
here-documents, $LINENO probes) run as script file, -c string, `source`, `eval` and on stdin by brush and by bash; per
mode the marker trace, statuses and $LINENO values must match bash; (b) completeness: in-process, the real decision
function (hook `verif_needs_more_input`) on every line-prefix of every program against `bash -n` ("needs more" iff bash
reports the prefix unfinished), and at the process boundary a paced stdin feeder that writes one line, waits until the
shell is blocked in read(0) (logical quiescence from /proc/<pid>/syscall, no timing) and compares what has been printed
so far with bash under the same pacing; (c) cache transparency: a long-lived process replays thousands of random
(text, options) parse calls - tokenizer, word, arithmetic, prompt, pattern, program parser, Shell::parse_string and the
completeness decision - and each result must equal the one computed by a fresh process; plus a process-level session
alternating `shopt -s/-u extglob` / `set -o posix` around `eval` of the same texts.
"""
import fcntl
import json
import os
import random
import struct
import subprocess
import termios
import time

from . import core, diffrun, gen_prog, inproc

PRE = gen_prog.PRELUDE


def layout_program(rng):
    from . import c02
    for _ in range(50):
        g = gen_prog.Gen(random.Random(rng.getrandbits(64)), max_depth=3, max_nodes=18, avoid={"ctl_outside", "level_beyond"})
        body = g.seq(0, {}, 3)
        # the open C02 findings (break/continue in a subshell in a loop, in a loop condition, ...) differ from bash in every delivery
        # mode alike: not this property's business, and fenced off with the same structural predicate C02 uses
        if not c02.in_known_region(body, g.funcs):
            break
    text = gen_prog.render_program(g.funcs, body)
    lines = text.split("\n")
    out = []
    prev = ""
    for l in lines:
        r = rng.random()
        ps = prev.strip()
        # nothing may be inserted where a case pattern is expected (after `case .. in` or an item terminator)
        if ps.startswith("case ") or ps in (";;", ";&", ";;&"):
            r = 1.0
        prev = l
        if r < 0.08:
            out.append("")
        elif r < 0.16:
            out.append("# comment with ' quote and \\")
        elif r < 0.24 and l.strip():
            out.append('echo "@ln $LINENO"')
        out.append(l)
    extras = [
        'cat <<EOF\n@hd $LINENO plain\nEOF',
        "cat <<'EOF'\n@hd $notexpanded\nEOF",
        'e c1 0 && \\\ne c2 0',
        'echo "@c" a\\\nb',
        'echo "@c" a\\\\\\\nb',
        'echo "@c" a\\\\',
        'echo "@c" a\\\\\\\\\\\nb',
        'echo "@q multi\nline $LINENO"',
        "echo '@s single\nquoted'",
        'x=$(\necho "@sub inside"\n)\necho "$x"',       # ($LINENO inside a multi-line $( ) is open finding C15-F1)
        'lf() {\n  echo "@lf $LINENO"\n}\nlf',
        # multi-byte characters inside constructs that span lines (character index vs byte length in the completeness decision)
        'echo "@q héllo\nwörld $LINENO"', "echo '@s naïve\nquoted é'", 'cat <<EOF\n@hd naïve body é\nsecond 🚀 line\nEOF', 'pfx=é; y=$(\necho "@sub ü"\n)\necho "$pfx$y"',
        'echo "@c é" a\\\nb', 'lf2() {\n  echo "@lf2 é $LINENO"\n}\nlf2', "cat <<'EOF'\n@hd $é not expanded\nEOF",
        'trap \'echo "@tr $LINENO"\' USR2',
        'case a in\n  a) echo "@case $LINENO" ;;\nesac',
        'if e i1 0\nthen\n  echo "@then $LINENO"\nfi',
        'while [ -z "$done_once" ]\ndo\n  done_once=1\n  echo "@wh $LINENO"\ndone',
        'echo "@arith $((\n1 +\n2\n))"',
        '{ e g1 0\ne g2 0; }',
        '( e s1 0\n)',
        'e p1 0 |\ncat',
        'e a1 0 &&\ne a2 0 ||\ne a3 0',
        # constructs that switch the tokenizer into "arithmetic" reading, followed by a here-document in the same text: the switch must
        # be over by then in every delivery mode (stdin gets a fresh tokenizer per command, a file does not)
        'echo "@leg $[1+2]"\ncat <<EOF\n@hd after legacy arith\nEOF', '(( x = 1 << 2 )); echo "@x $x"\ncat <<EOF\n@hd after arith cmd $x\nEOF',
        'echo "@ar $(( 1 << 3 ))"\ncat <<-EOF\n\t@hd after arith expansion\n\tEOF', '((e n1 0); e n2 0)\ncat <<EOF\n@hd after nested subshell\nEOF',
        # a continuation followed by an empty / blank line (the joined line ends there), then line numbers
        'echo "@c" a\\\n\necho "@ln $LINENO"', 'echo "@c" b\\\n   \necho "@ln $LINENO"', 'e k1 0 && \\\n\\\ne k2 0\necho "@ln $LINENO"',
    ]
    for _ in range(rng.randint(1, 4)):
        pos = rng.randrange(2, len(out) + 1)
        # only insert at top level: between lines that start in column 0 and are not inside a construct
        out.append(rng.choice(extras))
    out.append('echo "@last $LINENO"')
    return "\n".join(out) + "\n"


MODES = ["file", "c", "source", "eval", "stdin"]


def run_mode(shell, prog, mode):
    d = core.new_scratch("m15")
    with open(os.path.join(d, "prog.sh"), "w") as f:
        f.write(prog)
    if mode == "file":
        r = core.run_shell(shell, prog, d, mode="file", timeout=20)
    elif mode == "c":
        r = core.run_shell(shell, prog, d, mode="c", timeout=20)
    elif mode == "source":
        r = core.run_shell(shell, ". ./prog.sh\n", d, mode="c", timeout=20)
    elif mode == "eval":
        r = core.run_shell(shell, 'eval "$(cat prog.sh)"\n', d, mode="c", timeout=20)
    else:
        r = core.run_shell(shell, prog, d, mode="stdin", timeout=20)
    core.rmtree(d)
    return r


def bash_valid(prog):
    p = subprocess.run([core.BASH, "-n"], input=prog.encode(), stdout=subprocess.PIPE, stderr=subprocess.PIPE)
    return p.returncode == 0


def double_paren_then_heredoc(prog):
    for ln, line in enumerate(prog.split("\n")):
        i = line.find("((")
        if i >= 0 and not line.startswith("#") and "))" not in line[i:] and "$((" not in line:
            return "<<" in prog.split("\n", ln + 1)[-1] if ln + 1 < prog.count("\n") + 1 else False
    return False


def judge_modes(run, prog):
    if not bash_valid(prog):
        run.count("generated_program_rejected_by_bash_n")
        return
    for mode in MODES:
        rb = run_mode("brush", prog, mode)
        rh = run_mode("bash", prog, mode)
        run.evaluations += 1
        ob, oh = diffrun.observe(rb), diffrun.observe(rh)
        ck = core.crash_kind(rb)
        if oh == ("timeout",):
            run.inconclusive += 1
            continue
        if ob == oh and not ck:
            run.note_nontrivial((mode, len(prog.split("\n")) // 8, "LINENO" in prog, "<<" in prog, "\\\n" in prog))
            run.count("mode:" + mode)
            continue
        d = diffrun.first_diff(ob, oh)
        kind = "lineno" if ("@ln" in d or "LINENO" in d or any(t in d for t in ("@hd", "@lf", "@sub", "@then", "@wh", "@case", "@last", "@q", "@tr"))) else "trace"
        cl = None
        if kind == "lineno" and mode in ("eval", "source", "stdin", "c"):
            cl = "lineno-in-%s" % mode
        if mode != "stdin" and double_paren_then_heredoc(prog):
            # open finding C15-F2: `((` that opens nested subshells leaves the tokenizer reading "arithmetic"; a later `<<` in the same text
            # is then not a here-document (stdin delivery re-creates the tokenizer per command and is not affected)
            kf = run.findings.match_signature("heredoc-after-unclosed-double-paren")
            if kf:
                run.findings.report(kf)
                run.count("known:" + kf["id"])
                continue
        kf = run.findings.match_signature(cl) if cl else None
        if kf and same_modulo_lineno(ob, oh):
            run.findings.report(kf)
            run.count("known:" + kf["id"])
            continue
        run.violation("C15|mode:%s|%s|%s" % (mode, "crash:" + ck if ck else kind, d[:60]),
                      {"kind": "mode", "mode": mode, "program": prog, "brush": diffrun.describe(ob), "bash": diffrun.describe(oh),
                       "first_diff": d, "stderr": core.txt(rb.err[-400:])})


def same_modulo_lineno(a, b):
    """True if the observations are identical once the numbers printed by $LINENO probes are blanked."""
    if a == ("timeout",) or b == ("timeout",):
        return False
    import re

    def blank(marks):
        return tuple(re.sub(r"\d+", "N", m) if m.split(" ")[0] in ("@ln", "@hd", "@lf", "@sub", "@then", "@wh", "@case", "@last", "@q", "@tr") else m for m in marks)

    return blank(a[0]) == blank(b[0]) and a[2] == b[2]


# ---- (b) completeness ---------------------------------------------------------------------------------------

def prefixes(prog):
    lines = prog.split("\n")
    if lines and lines[-1] == "":
        lines = lines[:-1]
    return ["\n".join(lines[:k]) + "\n" for k in range(1, len(lines) + 1)]


def bash_needs_more(prefix):
    p = subprocess.run([core.BASH, "-n"], input=prefix.encode(), stdout=subprocess.PIPE, stderr=subprocess.PIPE)
    if p.returncode == 0:
        return False
    err = p.stderr.decode("utf-8", "replace")
    if "unexpected end of file" in err or "unexpected EOF" in err:
        return True
    return None        # a hard syntax error: not a completeness question


def completeness_layer(run, progs):
    items = []
    for p in progs:
        for pre in prefixes(p):
            items.append(pre)
    truth = core.pmap(bash_needs_more, items)
    d = core.new_scratch("n15")
    path = os.path.join(d, "prefixes.hex")
    inproc.write_hex(path, items)
    res = inproc.run_harness(["needs-more", "--file", path])
    if "decisions" not in res:
        raise core.Inconclusive("vharness needs-more failed: %s" % json.dumps(res)[:300])
    n_more = 0
    for pre, t, dec in zip(items, truth, res["decisions"]):
        run.evaluations += 1
        last = (pre[:-1] if pre.endswith("\n") else pre).split("\n")[-1]      # (only the prefix's own final newline is dropped: a blank last line ends a continuation)
        nbs = len(last) - len(last.rstrip("\\"))
        if nbs % 2 == 1 and not last.lstrip().startswith("#"):
            # the prefix ends in a line continuation: unfinished by definition (`bash -n` is lenient about it at EOF)
            t = True
        if t is None:
            run.count("prefix_hard_error_in_bash")
            continue
        if dec == 2:
            run.violation("C15|needs-more|panic", {"kind": "needs_more", "prefix": pre})
            continue
        if bool(dec) != t:
            tail = pre.rstrip("\n").split("\n")[-1][:40]
            # a here-document opened in this prefix: bash -n at EOF accepts an unterminated here-document with a warning
            if "<<" in pre and not t and dec == 1:
                run.count("heredoc_eof_leniency_of_bash_n")
                continue
            run.violation("C15|needs-more|%s|%s" % ("says-complete" if t else "says-incomplete", tail),
                          {"kind": "needs_more", "prefix": pre, "brush_needs_more": bool(dec), "bash_n_says_unfinished": t})
        else:
            if t:
                n_more += 1
            run.note_nontrivial(("prefix", hash(pre) % 100000, t))
    run.count("prefixes_incomplete_agreed", n_more)


def paced(shell, prog):
    """Feed the program line by line; after each line wait until the shell blocks in read(0); record output so far."""
    d = core.new_scratch("f15")
    argv = core.shell_argv(shell)
    env = core.base_env(d)
    p = subprocess.Popen(argv, cwd=d, env=env, stdin=subprocess.PIPE, stdout=subprocess.PIPE, stderr=subprocess.DEVNULL, start_new_session=True)
    os.set_blocking(p.stdout.fileno(), False)
    seen = b""
    snaps = []
    ok = True
    lines = prog.split("\n")
    if lines and lines[-1] == "":
        lines = lines[:-1]
    for l in lines:
        try:
            p.stdin.write((l + "\n").encode())
            p.stdin.flush()
        except (BrokenPipeError, OSError):
            break
        # logical quiescence: main thread blocked in read(0, ...)
        t0 = time.time()
        quiet = False
        while time.time() - t0 < 5:
            try:
                # everything written so far has been consumed (FIONREAD on our end of the pipe) ...
                pending = struct.unpack("i", fcntl.ioctl(p.stdin.fileno(), termios.FIONREAD, b"\0\0\0\0"))[0]
                with open("/proc/%d/syscall" % p.pid) as f:
                    sc = f.read().split()
                # ... and the shell is blocked in read(0) again
                if pending == 0 and sc and sc[0] == "0" and len(sc) > 1 and sc[1] in ("0x0", "0"):
                    quiet = True
                    break
            except OSError:
                break
            if p.poll() is not None:
                break
            time.sleep(0.002)
        try:
            chunk = p.stdout.read()
            if chunk:
                seen += chunk
        except (BlockingIOError, OSError):
            pass
        if not quiet and p.poll() is None:
            ok = False
        snaps.append(tuple(x.decode("utf-8", "replace") for x in seen.split(b"\n") if x.startswith(b"@")))
        if p.poll() is not None:
            break
    try:
        p.stdin.close()
    except OSError:
        pass
    try:
        p.wait(timeout=10)
    except subprocess.TimeoutExpired:
        ok = False
    try:
        os.killpg(p.pid, 9)
    except OSError:
        pass
    core.rmtree(d)
    return snaps, ok


def judge_paced(run, prog):
    sb, okb = paced("brush", prog)
    sh, okh = paced("bash", prog)
    run.evaluations += 1
    if not okb or not okh:
        run.inconclusive += 1
        run.count("paced_feeder_no_quiescence")
        return
    if sb == sh:
        steps = sum(1 for i in range(1, len(sh)) if sh[i] != sh[i - 1])
        run.note_nontrivial(("paced", steps, len(sh)))
        run.count("paced_lines_fed", len(sh))
        return
    k = next((i for i in range(min(len(sb), len(sh))) if sb[i] != sh[i]), min(len(sb), len(sh)))
    lines = prog.split("\n")
    run.violation("C15|paced-stdin|%s" % (lines[k][:40] if k < len(lines) else "end"),
                  {"kind": "paced", "program": prog, "after_line": k, "line": lines[k] if k < len(lines) else None,
                   "brush_markers_so_far": list(sb[k]) if k < len(sb) else None, "bash_markers_so_far": list(sh[k]) if k < len(sh) else None})


# ---- (c) cache transparency -----------------------------------------------------------------------------------

CACHE_TEXTS = [
    "echo @(a|b)", "echo !(x)", "case $x in +(a|b)) echo y;; esac", "[[ $x == @(a|b) ]]", "echo a*b", "echo ~/x:~/y", "x=~/a:~/b", "echo ${x:-~}",
    "1 + 2 * 3", "x<<1", "a ? b : c", "\\u@\\h \\w \\$ ", "\\[\\e[0m\\]\\t", "for i in 1 2; do echo $i; done", "if true; then echo @(a); fi",
    "echo $(( 1 + 2 ))", "echo \"$(echo ?(a))\"", "f() { echo +(x); }", "echo [[:alpha:]]*", "echo ?(a|b)c", "time -p echo x", "function g { :; }",
    "select x in a b; do :; done", "echo {a,b}", "coproc cat", "echo $'a\\nb'", "echo <(cat)", "a=(1 2) b+=(3)", "echo ${!x@}", "((x=1))",
    "echo *(a)", "cat <<EOF\nx\nEOF", "echo a\\\nb", "echo 'unterminated", "if true; then", "echo \"", "$(", "echo @(", "*(", "x=@(a|b)",
]


def cache_layer(run, quick, scale):
    rng = run.rng("cache")
    texts = list(CACHE_TEXTS)
    # enough distinct texts to force LRU eviction (caches hold 64 entries)
    for i in range(90):
        texts.append("echo t%d @(a|b%d) ~/q%d $((%d+1))" % (i, i, i, i))
    d = core.new_scratch("c15")
    path = os.path.join(d, "texts.hex")
    inproc.write_hex(path, texts)
    table = {}
    bitsets = [0, 1, 2, 3, 4, 5, 8, 9, 13]

    def fresh(bits):
        r = inproc.run_harness(["cache-replay", "--mode", "table", "--file", path, "--bits", bits])
        return r.get("table", {})

    for t in core.pmap(fresh, bitsets):
        table.update(t)
    if not table:
        raise core.Inconclusive("cache table could not be computed")
    tpath = os.path.join(d, "table.json")
    with open(tpath, "w") as f:
        json.dump(table, f)
    count = int((20000 if quick else 400000) * scale)
    res = inproc.run_harness(["cache-replay", "--mode", "replay", "--file", path, "--table", tpath, "--count", count, "--seed", run.seed + 1])
    if "calls" not in res:
        raise core.Inconclusive("vharness cache-replay failed: %s" % json.dumps(res)[:300])
    run.evaluations += res["calls"]
    run.count("cache_replay_calls", res["calls"])
    run.count("cache_replay_compared", res["compared"])
    run.count("cache_distinct_text_option_pairs", res["distinct_pairs"])
    for i in range(min(res["distinct_pairs"], 400)):
        run.note_nontrivial(("cachepair", i))
    eps = ["Shell::parse_string+needs_more", "tokenize", "word::parse", "arithmetic::parse", "prompt::parse", "pattern_to_regex", "Parser::parse_program"]
    for v in res["violations"]:
        ep = eps[v["entry_point"]] if v["entry_point"] < len(eps) else str(v["entry_point"])
        run.violation("C15|cache|%s|bits=%s" % (ep, v["bits"]), {"kind": "cache", "text": v["text"], "option_bits": v["bits"], "entry_point": ep,
                                                               "fresh_process_result": v["fresh"][:300] if v["fresh"] else None,
                                                               "long_lived_process_result": v["cached"][:300] if v["cached"] else None})


def session_layer(run, quick):
    """One brush process alternates option settings around eval of the same texts; each eval runs in ( ) so that a syntax
    error stays local while the (process-wide) parse caches are shared. Reference: the same evals in fresh processes."""
    texts = ["echo @(a|b)", "x=ab; [[ $x == @(ab|c) ]] && echo m", "echo !(zz)", "case ab in +(a|b)) echo y;; esac", "echo ok",
             # texts that read the same after quote removal but quote different parts must not share a compiled pattern / regex
             "[[ abc =~ ^a.c$ ]] && echo r1", "[[ abc =~ ^a\\.c$ ]] && echo r2", '[[ abc =~ ^a"."c$ ]] && echo r3', "f=notes_txt; [[ $f =~ \\.txt$ ]] && echo r4",
             "f=notes_txt; [[ $f =~ .txt$ ]] && echo r5", "p='a+'; [[ aaa =~ ^$p$ ]] && echo r6", "p='a+'; [[ aaa =~ ^\"$p\"$ ]] && echo r7",
             "case abc in a?c) echo c1;; esac", "case abc in a\\?c) echo c2;; esac", 'case "a?c" in a"?"c) echo c3;; esac', "x=aXc; echo ${x/?X/-} ${x/\\?X/-}",
             "[[ ABC == abc ]] && echo n1", "[[ ABC =~ ^abc$ ]] && echo n2", "x=a.c; [[ $x == a.c ]] && echo g1", 'x=abc; [[ $x == a"."c ]] && echo g2']
    settings = ["shopt -s extglob", "shopt -u extglob", "set -o posix", "set +o posix", "shopt -s nocasematch", "shopt -u nocasematch", ":", ":"]
    rng = run.rng("session")
    for rep in range(6 if quick else 80):
        seq = [(rng.choice(settings), rng.choice(texts)) for _ in range(10)]
        script = ""
        for k, (st, tx) in enumerate(seq):
            script += "%s\n( eval %s ) 2>/dev/null | sed 's/^/@o%d /'\necho \"@s%d ${PIPESTATUS[0]}\"\n" % (st, "'" + tx.replace("'", "'\\''") + "'", k, k)
        d = core.new_scratch("s15")
        r = core.run_shell("brush", script, d, timeout=30)
        core.rmtree(d)
        got = diffrun.observe(r)
        # reference: every step replayed in a fresh process with the option state accumulated so far
        state = []
        want = []
        for k, (st, tx) in enumerate(seq):
            state.append(st)
            fs = "\n".join(state) + "\n( eval %s ) 2>/dev/null | sed 's/^/@o%d /'\necho \"@s%d ${PIPESTATUS[0]}\"\n" % ("'" + tx.replace("'", "'\\''") + "'", k, k)
            d2 = core.new_scratch("s15")
            r2 = core.run_shell("brush", fs, d2, timeout=30)
            core.rmtree(d2)
            want += list(diffrun.observe(r2)[0])
        run.evaluations += 1
        if got != ("timeout",) and list(got[0]) == want:
            run.note_nontrivial(("session", rep))
            run.count("session_runs_ok")
        else:
            k = next((i for i in range(min(len(got[0]), len(want))) if got[0][i] != want[i]), None) if got != ("timeout",) else None
            run.violation("C15|session|%s" % (seq[0][1][:30]), {"kind": "session", "script": script, "long_lived": list(got[0]) if got != ("timeout",) else "timeout",
                                                               "fresh_processes": want, "first_diff_index": k})


def run(run):
    quick = run.tier == "quick"
    scale = getattr(run, "scale", 1.0)
    rng = run.rng("c15")
    run.rule = ("(a) grammar programs with layout variants (blank lines, comments, continuations incl. runs of 1/2/3/5 backslashes before a newline, "
                "here-documents, multi-line quotes, $LINENO probes) x 5 delivery modes vs bash per mode; (b) the completeness decision on every "
                "line-prefix of every program vs `bash -n`, and a paced stdin feeder (logical quiescence = blocked in read(0)) vs bash; "
                "(c) cache replay: random (text, option bits) calls with locality through 8 memoised entry points vs fresh-process results, "
                "> 64 distinct texts to force eviction, plus alternating-option eval sessions vs fresh processes. "
                "non-trivial = distinct (mode, program class), agreeing prefixes, paced step patterns, (text, options) pairs")
    run.assumptions = ["programs are valid by `bash -n` (for invalid ones the shells legitimately differ in how much they run)",
                       "`bash -n` accepts an unterminated here-document at EOF with a warning; such prefixes are not judged"]
    diffrun.run_canaries(run, prelude=PRE)
    n = int((40 if quick else 1500) * scale)
    progs = []
    while len(progs) < n:
        pg = layout_program(random.Random(rng.getrandbits(64)))
        if bash_valid(pg):
            progs.append(pg)
        else:
            run.count("generated_program_rejected_by_bash_n")
    core.pmap(lambda p: judge_modes(run, p), progs)
    completeness_layer(run, progs)
    core.pmap(lambda p: judge_paced(run, p), progs[: int((16 if quick else 300) * scale)], workers=8)
    cache_layer(run, quick, scale)
    session_layer(run, quick)
    run.sample({"program": progs[0]})


def replay(path):
    with open(path) as f:
        rp = json.load(f)
    if rp.get("kind") == "mode":
        rb = run_mode("brush", rp["program"], rp["mode"])
        rh = run_mode("bash", rp["program"], rp["mode"])
        ob, oh = diffrun.observe(rb), diffrun.observe(rh)
        print(json.dumps({"first_diff": diffrun.first_diff(ob, oh)}, indent=1))
        if ob != oh:
            print("VIOLATION property=C15 replay=%s" % path)
            return 1
    return 0
