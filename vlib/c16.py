"""C16 — the EXIT trap runs exactly once on every way out, and traps preserve $?.

Monitors: (1) definitional invariants on brush's own output: EXIT marker count, position (last), `$?` it reports ==
process exit status (when the handler does not call exit), absent after `exec`, `$?` after an ERR handler unchanged;
(2) hook event log: trap.enter(EXIT) in the top-level shell at most once, never nested in itself;
(3) bash as reference for the whole marker trace and exit status.
"""
import itertools
import json
import os
import random

from . import core, diffrun, gen_prog

PRE = gen_prog.PRELUDE

# --- termination paths: (name, text, kind)  kind: 'exit' (shell terminates here), 'end' (runs to the end), 'exec'
PATHS = [
    ("end0", "e a 0", "end"),
    ("end3", "e a 3", "end"),
    ("exit5", "e a 0; exit 5; e notreached 0", "exit"),
    ("exit_noarg", "e a 3; exit; e notreached 0", "exit"),
    ("exit0", "e a 3; exit 0; e notreached 0", "exit"),
    ("errexit", "set -e; e a 3; e notreached 0", "exit"),
    ("errexit_func", "set -e; g() { e ing 4; e notreached 0; }; g; e notreached2 0", "exit"),
    ("errexit_subst", "set -e; x=$(e s 6); e notreached 0", "exit"),
    ("nounset", "set -u; e a 0; echo $nope_undefined; e notreached 0", "exit-nz"),
    ("qmark", "e a 0; : ${nope_undefined:?msg}; e notreached 0", "exit-nz"),
    ("subshell_exit", "( e s 0; exit 7 ); echo \"@? $?\"; e after 2", "end"),
    ("subst_exit", "x=$(e s 0; exit 7); echo \"@? $?\"; e after 2", "end"),
    ("pipe_exit", "e p 0 | { cat; exit 8; }; echo \"@? $?\"; e after 2", "end"),
    ("return_top", "e a 0; return 4 2>/dev/null; echo \"@? $?\"; e after 3", "end"),
    ("bg_last", "e a 0; { msleep 30; } &", "end"),
    ("bg_wait", "{ msleep 20; e bg 0; } & wait; e after 5", "end"),
    ("exec_true", "e a 0; exec true; e notreached 0", "exec"),
    ("exec_status", "e a 0; exec msleep 1 9; e notreached 0", "exec"),
    ("exit_in_eval", "eval 'e a 0; exit 6'; e notreached 0", "exit"),
    ("exit_in_source", "echo 'e insrc 0; exit 11; e notreached 0' > lib.sh; . ./lib.sh; e notreached2 0", "exit"),
    # `exit` run by another trap's handler ends the shell too (with the EXIT trap, once)
    # (the handler removes itself first: which failing commands of the EXIT handler would fire ERR is C03's business, not this path's)
    ("exit_in_err_handler", "trap 'echo \"@hx $?\"; trap - ERR; exit 5' ERR; e a 3; e notreached 0", "exit"),
]

# --- nesting contexts: text with {} placeholder
CONTEXTS = [
    ("plain", "{}"),
    ("func", "f() {{ {} ; }}; f"),
    ("func2", "f() {{ {} ; }}; g2() {{ e ing2 0; f; e afterf 0; }}; g2"),
    ("for", "for i in 1 2; do {} ; done"),
    ("while", "k=0; while [ $((k+=1)) -le 2 ]; do {} ; done"),
    ("group", "{{ {} ; }}"),
    ("if", "if e c 0; then {} ; fi"),
    ("case", "case x in\n x) {} ;;\nesac"),
    ("func_in_loop", "f() {{ {} ; }}; for i in 1 2; do f; done"),
    ("andor", "e c 0 && {{ {} ; }}"),
]

# --- trap histories: (name, text, expects_marker)
HIST = [
    ("set", "trap 'echo \"@exit $?\"' EXIT", True),
    ("replace", "trap 'echo \"@old $?\"' EXIT; trap 'echo \"@exit $?\"' EXIT", True),
    ("remove", "trap 'echo \"@exit $?\"' EXIT; trap - EXIT", False),
    ("remove_empty", "trap 'echo \"@exit $?\"' EXIT; trap '' EXIT", False),
    ("in_func", "st() { trap 'echo \"@exit $?\"' EXIT; }; st", True),
    ("handler_fails", "trap 'echo \"@exit $?\"; false' EXIT", True),
    ("handler_func", "h() { echo \"@exit $1\"; return 3; }; trap 'h $?' EXIT", True),
    ("handler_sets_other", "trap 'echo \"@exit $?\"; trap \"echo @usr\" USR1; trap \"echo @err\" ERR' EXIT", True),
    ("handler_resets_exit", "trap 'echo \"@exit $?\"; trap \"echo @again\" EXIT' EXIT", True),
    ("handler_subshell", "trap 'echo \"@exit $?\"; ( exit 4 ); x=$(exit 5)' EXIT", True),
    ("with_err", "trap 'echo \"@errh $?\"' ERR; trap 'echo \"@exit $?\"' EXIT", True),
    ("handler_exit", "trap 'echo \"@exit $?\"; exit 9' EXIT", True),
    ("handler_exit0", "trap 'echo \"@exit $?\"; exit 0' EXIT", True),
    ("none", "", False),
    ("late_set", "LATE", True),   # trap installed right before the terminating command, inside the context
]

FRONTS = ["file", "c", "stdin"]

# --- earlier session activity that touches trap bookkeeping (run before the terminating command; prints nothing)
PRIOR = [
    ("none", ""),
    ("compgen_fn0", "cf() { COMPREPLY=(x); return 0; }; compgen -F cf a >/dev/null 2>&1"),
    ("compgen_fn124", "cf() { return 124; }; compgen -F cf a >/dev/null 2>&1"),
    ("compgen_fn_fail", "cf() { return 1; }; compgen -F cf a >/dev/null 2>&1; compgen -W 'a b' a >/dev/null"),
    ("debug_trap_cycle", "trap ':' DEBUG; :; trap - DEBUG"),
    ("err_trap_ran", "trap ':' ERR; false; trap - ERR"),
    ("return_trap_cycle", "rt() { :; }; trap ':' RETURN; rt; trap - RETURN"),
    ("nested_eval_source", "echo ':' > pre.sh; eval '. ./pre.sh'; eval 'eval :'"),
    ("failed_expansion_in_subshell", "( : ${nope_x:?gone} ) 2>/dev/null; x=$( : ${nope_y?gone} 2>/dev/null )"),
    ("func_error_return", "fe() { return 7; }; fe; fe || :"),
]


def build(path, ctx, hist, front, prior=("none", "")):
    pname, ptext, pkind = path
    hname, htext, hmark = hist
    body = ptext
    if hname == "late_set":
        body = "trap 'echo \"@exit $?\"' EXIT; " + ptext
        htext = ""
    # multi-statement function definitions inside paths cannot be nested in every context textually; keep them plain
    script = PRE + (htext + "\n" if htext else "") + "e start 0\n" + (prior[1] + "\n" if prior[1] else "") + ctx[1].format(body) + "\n"
    return script


def applicable(path, ctx, hist):
    # an ERR trap set *inside* a function without errtrace: whether it applies to that function's own commands is an ERR-inheritance
    # question (brush: no, bash: yes) outside this property's statement
    if path[0] == "exit_in_err_handler" and ctx[0] in ("func", "func2", "func_in_loop"):
        return False
    pname = path[0]
    if ctx[0] != "plain" and pname in ("errexit_func", "exit_in_source", "kill_term_handler", "bg_last", "bg_wait", "return_top"):
        return False
    if pname == "return_top" and ctx[0] != "plain":
        return False
    # with errexit still on when the handler runs, a failing command inside the handler ends it early with that
    # status in bash (errexit acting inside the handler = the handler "calling exit"); outside the statement.
    if "set -e" in path[1] and hist[0] in ("handler_fails", "handler_func", "handler_subshell", "handler_sets_other"):
        return False
    return True


def parse_exit_marks(marks):
    idx = [i for i, m in enumerate(marks) if m.startswith("@exit")]
    return idx


def invariants(script, res, path, hist, log_events):
    """Definitional checks on brush alone. Returns list of (tag, detail)."""
    bad = []
    o = diffrun.observe(res)
    if o == ("timeout",):
        return [("timeout", "brush did not finish")]
    marks = list(o[0])
    ex = parse_exit_marks(marks)
    expects = hist[2]
    pkind = path[2]
    if pkind == "exec":
        if ex:
            bad.append(("exit-trap-after-exec", "EXIT handler ran although the shell was replaced by exec"))
        return bad
    if expects:
        if len(ex) != 1:
            bad.append(("exit-trap-count", "EXIT marker appeared %d times (want exactly 1)" % len(ex)))
        else:
            tail = marks[ex[0] + 1:]
            # the handler itself may print further markers (@again would be a violation: handler re-entered)
            if any(m.startswith("@again") for m in tail):
                bad.append(("exit-trap-reentered", "EXIT handler re-set by itself ran again"))
            if any(m.startswith("@m ") or m.startswith("@? ") for m in tail):
                bad.append(("exit-trap-not-last", "output after the EXIT handler: %r" % tail[:3]))
            rep = marks[ex[0]].split()
            if hist[0] in ("handler_exit", "handler_exit0"):
                want = 9 if hist[0] == "handler_exit" else 0
                if res.rc != want:
                    bad.append(("handler-exit-status-ignored", "handler called exit %d but process status is %s" % (want, res.rc)))
            elif len(rep) == 2 and rep[1].isdigit():
                if int(rep[1]) != res.rc:
                    bad.append(("exit-status-mismatch", "handler saw $?=%s but process status is %s" % (rep[1], res.rc)))
    else:
        if ex:
            bad.append(("exit-trap-unexpected", "EXIT marker printed although the trap was removed/never set"))
    # event log
    top_enters = 0
    depth = 0
    for ev in log_events:
        if ev.get("kind") == "trap.enter" and ev.get("signal") == "EXIT" and not ev.get("subshell"):
            top_enters += 1
            depth += 1
            if depth > 1:
                bad.append(("exit-trap-nested", "trap.enter(EXIT) nested in itself in the event log"))
        elif ev.get("kind") == "trap.leave" and ev.get("signal") == "EXIT":
            depth = max(0, depth - 1)
    if top_enters > 1:
        bad.append(("exit-trap-count-events", "trap.enter(EXIT) logged %d times in the top-level shell" % top_enters))
    return bad


def run_brush_logged(script, mode):
    d = core.new_scratch("br")
    logp = os.path.join(d, ".events.jsonl")
    r = core.run_shell("brush", script, d, mode=mode, env_extra={"BRUSH_VERIF_LOG": logp}, timeout=15)
    evs = []
    try:
        with open(logp) as f:
            for line in f:
                try:
                    evs.append(json.loads(line))
                except ValueError:
                    pass
    except OSError:
        pass
    core.rmtree(d)
    return r, evs


def norm(obs, path):
    """exit-nz paths (nounset / :?): bash exits 127, brush 1 — not part of the statement; compare zero/non-zero."""
    if obs == ("timeout",):
        return obs
    # `@errh` markers (history with_err) are not compared: on the way out of the shell brush fires ERR at enclosing call
    # sites / for an explicit `exit N` (open finding C03-F1, mirrored by a known failure in the repository's own suite).
    # What the ERR handler must preserve is checked by the dedicated `$?`-preservation cases.
    obs = (tuple(m for m in obs[0] if not m.startswith("@errh")), obs[1], obs[2])
    if path[2] == "exit-nz":
        marks = tuple(("@exit nz" if m.startswith("@exit ") and m != "@exit 0" else m) for m in obs[0])
        return (marks, obs[1], 0 if obs[2] == 0 else "nz")
    return obs


def judge(run, case):
    path, ctx, hist, front = case[:4]
    prior = case[4] if len(case) > 4 else PRIOR[0]
    script = build(path, ctx, hist, front, prior)
    rb, evs = run_brush_logged(script, front)
    d = core.new_scratch("ba")
    rr = core.run_shell("bash", script, d, mode=front, timeout=15)
    core.rmtree(d)
    run.evaluations += 1
    ck = core.crash_kind(rb)
    ob, orf = norm(diffrun.observe(rb), path), norm(diffrun.observe(rr), path)
    if orf == ("timeout",):
        run.inconclusive += 1
        return
    key = "%s|%s|%s|%s|%s" % (path[0], ctx[0], hist[0], front, prior[0])
    bad = invariants(script, rb, path, hist, evs)
    if path[2] == "exit-nz":
        bad = [b for b in bad if b[0] != "exit-status-mismatch"] + (
            [("exit-status-mismatch", "nz path")] if False else [])
    if path[0] == "kill_term_handler":
        # asynchronous signal delivery: only the invariants are demanded, not trace equality with bash
        orf = ob
    if ck:
        bad.append(("crash", ck))
    if not bad and ob == orf:
        run.note_nontrivial((path[0], ctx[0], hist[0], front, prior[0]))
        run.count("prior:" + prior[0])
        run.count("path:" + path[0])
        run.count("exit_trap_enter_events", sum(1 for e in evs if e.get("kind") == "trap.enter" and e.get("signal") == "EXIT"))
        if evs:
            run.count("runs_with_event_log")
        return
    # attribute to known findings by exact cluster rules
    tags = sorted(set(b[0] for b in bad)) or ["bash-diff"]
    cluster = None
    if not bad and ob != orf:
        cluster = classify_bash_diff(path, ctx, hist, front, ob, orf)
    if tags == ["handler-exit-status-ignored"] and ob != ("timeout",) and orf != ("timeout",) and ob[0] == orf[0]:
        # open finding C16-F1: same trace as bash, only the process status differs: brush keeps the status the shell was
        # terminating with instead of the one the handler's own `exit N` asked for.
        rep = [m for m in diffrun.observe(rb)[0] if m.startswith("@exit ")]
        if rep and rep[0].split()[1].isdigit() and int(rep[0].split()[1]) == rb.rc:
            cluster = "exit-handler-exit-status-ignored"
    if cluster:
        kf = run.findings.match_signature(cluster)
        if kf:
            run.findings.report(kf)
            run.count("known:" + kf["id"])
            return
    sig = "C16|%s|%s|%s" % (",".join(tags), key if len(tags) == 1 and tags[0] == "bash-diff" else path[0] + "|" + hist[0],
                            diffrun.first_diff(ob, orf).split(":")[0])
    if prior[0] != "none":
        sig += "|prior:" + prior[0]
    run.violation(sig, {"kind": "exitpath", "script": script, "mode": front, "path": path[0], "ctx": ctx[0], "hist": hist[0], "prior": prior[0],
                        "invariant_failures": bad, "brush": diffrun.describe(ob), "bash": diffrun.describe(orf),
                        "first_diff": diffrun.first_diff(ob, orf), "brush_stderr": core.txt(rb.err[-800:]),
                        "events": evs[-12:]})


def classify_bash_diff(path, ctx, hist, front, ob, orf):
    return None


# ---- `$?` preservation across ERR / EXIT / DEBUG handlers -------------------------------------------------

def preserve_cases():
    out = []
    handlers = ["true", "false", "e h 0", "e h 5", "( exit 9 )", "x=$(e h 2)", "hf() { return 6; }; hf", "e h 0 | e h2 3",
                "[[ a == b ]]", "(( 0 ))"]
    stats = [1, 3, 7]
    for h, s in itertools.product(handlers, stats):
        out.append(("err", "trap '%s' ERR\ne a %d\necho \"@? $?\"\ne b 0\necho \"@? $?\"\n" % (h.replace("'", "'\\''"), s)))
        if "(" not in h or h.startswith("hf"):
            # a subshell / command substitution inside an errtrace'd ERR handler re-fires ERR inside that subshell (bash
            # recurses without bound for `( false )`); not generated. brush's unbounded recursion for `( exit 9 )` there
            # is recorded under C01.
            out.append(("err-func", "set -E\ntrap '%s' ERR\nf() { e a %d; echo \"@? $?\"; }\nf\necho \"@? $?\"\n" % (h.replace("'", "'\\''"), s)))
        out.append(("exit", "trap '%s; echo \"@exit\"' EXIT\ne a %d\nexit\n" % (h.replace("'", "'\\''"), s)))
        out.append(("exit-end", "trap '%s' EXIT\ne a %d\n" % (h.replace("'", "'\\''"), s)))
        out.append(("debug", "f() { return %d; }\ntrap '%s' DEBUG\nf\necho \"@? $?\"\ntrap - DEBUG\n" % (s, h.replace("'", "'\\''"))))
    # handlers that change the trap table while they run: a handler that removes or replaces its own entry is gone / replaced
    # afterwards (compared with bash through the markers; the listing is reduced to a count of lines)
    out += [
        ("self", "trap 'echo \"@h $?\"; trap - ERR' ERR\ne a 1\necho \"@? $?\"\ne b 5\necho \"@? $?\"\ntrap -p ERR | wc -l | sed 's/^ */@n /'\n"),
        ("self", "n=0\ntrap 'n=$((n+1)); echo \"@h $n\"; if [ $n -ge 2 ]; then trap - ERR; fi' ERR\ne a 1\ne b 3\ne c 1\ne d 1\necho \"@? $?\"\n"),
        ("self", "trap 'echo \"@h1 $?\"; trap '\\''echo \"@h2 $?\"'\\'' ERR' ERR\ne a 1\ne b 3\ne c 0\necho \"@? $?\"\n"),
        ("self", "set -E\ntrap 'echo \"@h $?\"; trap - ERR' ERR\nf() { e a 1; echo \"@f $?\"; }\nf\ne b 1\necho \"@? $?\"\n"),
        ("self", "trap 'trap - DEBUG; echo \"@once\"' DEBUG\ne a 0\ne b 0\necho \"@? $?\"\n"),
        ("self", "trap 'echo \"@x $?\"; trap -p EXIT | wc -l | sed \"s/^ */@n /\"' EXIT\n( exit 3 )\n"),
        ("self", "trap 'echo \"@x1 $?\"; trap '\\''echo \"@x2\"'\\'' EXIT' EXIT\ne a 2\nexit 4\n"),
    ]
    return out


def judge_preserve(run, item):
    kind, body = item
    script = PRE + body
    rb, rr = diffrun.run_both(script)
    run.evaluations += 1
    ob, orf = diffrun.observe(rb), diffrun.observe(rr)
    ck = core.crash_kind(rb)
    bad = []
    if kind in ("err", "err-func") and ob != ("timeout",):
        # definitional: the first `$?` probe after the failing command reports the failing status
        st = body.split("e a ")[1].split()[0].rstrip(";")
        probes = [m for m in ob[0] if m.startswith("@? ")]
        if not probes or probes[0] != "@? " + st:
            bad.append(("status-clobbered-by-handler", "first $? probe %r, want %s" % (probes[:1], st)))
    if kind in ("exit", "exit-end") and ob != ("timeout",):
        st = int(body.split("e a ")[1].split()[0])
        if rb.rc != st:
            bad.append(("exit-status-clobbered-by-handler", "process status %s, want %s" % (rb.rc, st)))
    if ck:
        bad.append(("crash", ck))
    if not bad and ob == orf:
        run.note_nontrivial(("preserve", kind, body[:60]))
        run.count("preserve:" + kind)
        return
    tags = sorted(set(b[0] for b in bad)) or ["bash-diff"]
    sig = "C16|preserve|%s|%s|%s" % (kind, ",".join(tags), body.split("\n")[0][:50])
    kf = run.findings.match_signature("preserve|%s|%s" % (kind, ",".join(tags)))
    if kf and kind == "debug":
        run.findings.report(kf)
        return
    run.violation(sig, {"kind": "preserve", "script": script, "mode": "file", "invariant_failures": bad,
                        "brush": diffrun.describe(ob), "bash": diffrun.describe(orf),
                        "first_diff": diffrun.first_diff(ob, orf), "brush_stderr": core.txt(rb.err[-800:])})


def all_cases():
    out = []
    for path, ctx, hist, front in itertools.product(PATHS, CONTEXTS, HIST, FRONTS):
        if not applicable(path, ctx, hist):
            continue
        out.append((path, ctx, hist, front))
    return out


def run(run):
    quick = run.tier == "quick"
    scale = getattr(run, "scale", 1.0)
    run.rule = ("product of %d termination paths x %d nesting contexts x %d trap histories x 3 front-ends (file, -c, stdin); "
                "each run checked against the definitional invariants (EXIT marker exactly once / last / reports the process "
                "status / absent after exec; hook event log: trap.enter(EXIT) once, never nested) and against bash's trace; "
                "plus `$?`-preservation cases for ERR/EXIT/DEBUG handlers x handler bodies x statuses. "
                "non-trivial = distinct (path, context, history, front-end) combinations that passed" % (len(PATHS), len(CONTEXTS), len(HIST)))
    run.assumptions = ["bash 5.2.15 reference for traces", "nounset/:? abort status compared as zero/non-zero",
                       "the EXIT trap of a ( ) subshell is outside the statement and not generated"]
    diffrun.run_canaries(run, prelude=PRE)
    cases = all_cases()
    rng = run.rng("cases")
    rng.shuffle(cases)
    if quick:
        cases = cases[: int(1500 * scale)]
    # earlier-activity dimension: every prior activity x a rotating slice of the product
    rng2 = run.rng("prior")
    base = all_cases()
    extra = []
    per = int((40 if quick else 600) * scale)
    for pr in PRIOR[1:]:
        for c in rng2.sample(base, min(per, len(base))):
            extra.append(c + (pr,))
    cases = cases + extra
    run.count("product_cases", len(cases))
    core.pmap(lambda c: judge(run, c), cases)
    pc = preserve_cases()
    core.pmap(lambda c: judge_preserve(run, c), pc)
    run.sample({"script": build(*cases[0]), "front": cases[0][3]})
    run.sample({"script": PRE + pc[0][1]})
    if len(cases) == len(all_cases()):
        run.extra["product_exhaustive"] = True


def replay(path):
    with open(path) as f:
        rp = json.load(f)
    rb, rr = diffrun.run_both(rp["script"], mode=rp.get("mode", "file"))
    ob, orf = diffrun.observe(rb), diffrun.observe(rr)
    # the same normalisation the check applies (nounset / :? abort statuses are compared as zero / non-zero, @errh markers dropped)
    pth = next((x for x in PATHS if x[0] == rp.get("path")), None)
    if pth is not None:
        ob, orf = norm(ob, pth), norm(orf, pth)
    print(json.dumps({"brush": diffrun.describe(ob), "bash": diffrun.describe(orf),
                      "first_diff": diffrun.first_diff(ob, orf), "brush_stderr": core.txt(rb.err[-800:])}, indent=1))
    if ob != orf or core.crash_kind(rb):
        print("VIOLATION property=C16 replay=%s" % path)
        return 1
    return 0
