"""Byte/char/token level mutations and corpus builders shared by C01, C19 (and anything that needs hostile text)."""
import random

from . import gen_prog

SHELL_CHARS = list(";&|<>(){}[]$`\"'\\#!*?~=-+:%/^,@. \t\n") + ["é", "🚀", "\u0301"]
BOUNDARY = ["0", "1", "-1", "2147483647", "2147483648", "9223372036854775807", "9223372036854775808",
            "-9223372036854775808", "-9223372036854775809", "18446744073709551615", "99999999999999999999", "64", "63", "65"]

SEED_SNIPPETS = [
    'echo "${x:1:2}" ${y:-d} ${z##*/} ${#w} ${a[@]:1:2} ${!p} ${v/a/b} ${v^^} ${v@Q}',
    'for i in {1..5}; do echo $((i * 2 + (3 % 2))); done',
    'case $x in a|b) echo 1;; *) echo 2;& esac',
    'if [[ $a == b* && -n $c || ! -e /x ]]; then :; elif (( x > 1 )); then :; else :; fi',
    'f() { local v=$1; return $((v + 1)); }; f 3 || echo $?',
    'cat <<EOF | tr a b\n$x `echo y` \\$z\nEOF\n',
    "cat <<-'E'\n\tliteral $x\n\tE\n",
    'x=(a "b c" [5]=d); echo "${x[@]}" ${#x[@]} ${!x[@]}; unset "x[1]"',
    'declare -A m=([k]=v [k 2]="v 2"); for k in "${!m[@]}"; do echo "$k=${m[$k]}"; done',
    'echo a{b,c}d{1..3} ~ ~/x $(echo sub) `echo bq` $((1+2)) <(echo ps) >(cat)',
    'while read -r l; do echo "$l"; done < <(printf "a\\nb\\n")',
    'exec 3>&1 4<&0; echo x >&3 2>&1 &>/dev/null <<<here',
    'trap "echo bye" EXIT; set -euo pipefail; shopt -s extglob nullglob; echo @(a|b) !(c)',
    'printf "%s %d %5.2f %q %x\\n" a 1 2.5 "b c" 255; let "x = 1 << 3"; echo $x',
    'select_x() { (( $# )) && shift 2>/dev/null; getopts ab: o -a -b v; echo $o $OPTARG $OPTIND; }; select_x',
    'coproc_cmd() { :; }; a=1 b=2 env | grep -c . ; { echo g; } 2>&1 | ( cat ) && ! false',
    'for ((i=0; i<3; i++)); do continue 1; done; until true; do break; done; echo ${PIPESTATUS[0]}',
    'alias ll="ls -l"; unalias ll; type echo; command -v ls; hash -r; umask 022; ulimit -n',
    'echo $\'a\\tb\\x41\\u00e9\' $"loc" "a\\"b" \'c\'"d"e\\ f',
    'x=abc; echo ${x:(-1)} ${x: -2:1} ${x:$((1)):1} ${x:0:-1} ${x//[ab]/Z} ${x/#a/Q} ${x/%c/R}',
    'history -c; pushd / >/dev/null; popd >/dev/null; dirs; cd -; pwd -P',
    'read -n 2 -d , v <<< "ab,cd"; mapfile -t arr <<< $\'1\\n2\'; echo ${arr[1]} $v',
    '[ -f /etc/passwd -a 1 -lt 2 ] ; test ! -z "$x" -o "$y" = z',
    '(( a = b ? c : d, e += 2, ++f, g-- )) ; echo $(( 2 ** 3 ** 2 )) $(( ~1 & 0xff | 010 ^ 2#101 ))',
]


def mutate_text(rng, s, n=None):
    n = n or rng.randint(1, 4)
    chars = list(s)
    for _ in range(n):
        op = rng.randrange(8)
        if not chars:
            chars = [rng.choice(SHELL_CHARS)]
            continue
        i = rng.randrange(len(chars))
        if op == 0:
            del chars[i]
        elif op == 1:
            chars.insert(i, chars[i])
        elif op == 2 and i + 1 < len(chars):
            chars[i], chars[i + 1] = chars[i + 1], chars[i]
        elif op == 3:
            chars.insert(i, rng.choice(SHELL_CHARS))
        elif op == 4:
            chars[i] = rng.choice(SHELL_CHARS)
        elif op == 5:
            chars = chars[:i]
        elif op == 6:
            # replace a number by a boundary value
            t = "".join(chars)
            import re
            nums = list(re.finditer(r"-?\d+", t))
            if nums:
                m = rng.choice(nums)
                t = t[:m.start()] + rng.choice(BOUNDARY) + t[m.end():]
                chars = list(t)
        else:
            j = rng.randrange(len(chars))
            a, b = min(i, j), max(i, j)
            chars = chars[:a] + chars[b:]
    return "".join(chars)


def wrap_nest(rng, s, depth):
    kind = rng.choice(["subst", "arith", "group", "default", "dq", "subshell", "bq", "if", "brace"])
    for _ in range(depth):
        if kind == "subst":
            s = "echo $(%s)" % s
        elif kind == "arith":
            s = "echo $((1 + (%s)))" % (s if s.replace(" ", "").isalnum() else "2")
        elif kind == "group":
            s = "{ %s; }" % s
        elif kind == "default":
            s = 'echo "${x:-%s}"' % s.replace('"', "")
        elif kind == "dq":
            s = 'echo "$(%s)"' % s
        elif kind == "subshell":
            s = "( %s )" % s
        elif kind == "bq":
            s = "echo `%s`" % s.replace("`", "")
        elif kind == "if":
            s = "if true; then %s; fi" % s
        else:
            s = "echo {a,%s}" % "b"
    return s


def grammar_programs(rng, count, max_depth=4, max_nodes=25):
    out = []
    for _ in range(count):
        g = gen_prog.Gen(random.Random(rng.getrandbits(64)), max_depth=max_depth, max_nodes=max_nodes)
        body = g.seq(0, {}, 3)
        out.append(gen_prog.render_program(g.funcs, body))
    return out


def corpus_lines(rng, count):
    """Lines for the line-editor entry points: snippets, their mutations, prefixes and grammar-generated lines."""
    lines = list(SEED_SNIPPETS)
    progs = grammar_programs(rng, max(4, count // 40))
    for p in progs:
        for l in p.split("\n"):
            if l.strip():
                lines.append(l)
        if len(p) < 400:
            lines.append(p)
    base = list(lines)
    while len(lines) < count:
        s = rng.choice(base)
        r = rng.random()
        if r < 0.6:
            lines.append(mutate_text(rng, s))
        elif r < 0.8:
            lines.append(s[:rng.randrange(len(s) + 1)])
        elif r < 0.9:
            a, b = rng.choice(base), rng.choice(base)
            lines.append(a[:rng.randrange(len(a) + 1)] + b[rng.randrange(len(b) + 1):])
        else:
            lines.append(wrap_nest(rng, s.split("\n")[0][:60], rng.choice([1, 2, 8, 32, 64])))
    return lines[:count]


def hexlines(lines):
    return "\n".join(l.encode("utf-8", "surrogatepass").hex() for l in lines) + "\n"
