"""C18 — long sessions do not leak descriptors, children or internal stacks.

Definitional monitor (N-invariance): a body is wrapped as `iter() { BODY; }` and executed N times in one shell; after 2
iterations (iteration 1 is warm-up) and after N the following are sampled and must not differ: the number of variable
scopes, call-stack frames and virtual descriptors in the `save` JSON of the Shell struct (exact), `${#FUNCNAME[@]}` at
top level (exact), zombie children (exact, external `fdcount`), the live job table after `wait` (exact), and the number
of OS descriptors of the shell process (growth criterion: see below); the output of iteration N must equal that of
iteration 2. Bodies come from the control-flow grammar plus fault leaves (missing files, unwritable targets, unknown
commands, commands named by a path that cannot be spawned, bad substitutions, readonly targets, return/break out of
nested constructs, errors under temporary assignments, failing redirects on function definitions).
"""
import hashlib
import json
import os
import random

from . import core, gen_prog

FAULTS = [
    "cat < missing", "echo x > /proc/nope/x", "echo x > sub/", "nosuchcmd", "./missing-cmd", "X=1 ./missing-cmd", "X=1 Y=2 /nonexistent/bin/cmd a b",
    "( : ${undefined_v?gone} )", "readonly RO=1 2>/dev/null; RO=2", "X=1 ffail", "x=$(nosuchcmd)", "cat <<EOF | nosuchcmd\nbody\nEOF", "exec 9> f9; exec 9>&-",
    "cat <(echo a)", "echo b > >(cat >/dev/null)", "fdef", "g1", "eval 'if'", ". ./nofile", "{ :; } & wait", "x=$(echo a; exit 3)", "ffail || :",
    "for i in 1 2; do for j in 1 2; do break 2; done; done", "fret", "X=1 fret", "floop", "echo ${#undefined_v} ${undefined_v:-d}", "printf '%d\\n' notanumber",
    "cd /nonexistent/dir", "X=1 cd /nonexistent/dir", "read -r l < in", "read -r l < missing", "while read -r l; do :; done < in", "x=1 y=2 true", "X=1 eval 'Y=2 false'",
    "echo a | cat | cat >/dev/null", "nosuchcmd | cat", "cat in | nosuchcmd", "[[ a == b ]]", "(( 1 / 0 ))", "echo $(( 1 / 0 ))", "local_outside=1", "declare -A m; m[k]=v; unset m",
    "exec 8< in; read -r l <&8; exec 8<&-", "exec 7> f7", "cat < in > out.tmp", "fsub", "fdefok", "source_ok", "X=1 fdef", "trap ':' USR1; trap - USR1",
    "head -n1 <(gen 300000 1) >/dev/null", "read -r l < <(gen 300000 2)", ": <(gen 300000 3)", "nosuchcmd <(gen 300000 4)", "cat <(gen 300000 5) > /nonexistent-dir/x",
    "gen 300000 6 | head -n1 >/dev/null", "gen 300000 7 | { read -r l; }", "echo x > >(exit 0)", "x=$(gen 300000 8 | head -c 10)", "fpsub",
    # a function that runs break / continue for its caller's loop (with arguments and a temporary assignment), and directory-stack
    # operations that fail: whatever the outcome, no frame, scope or stack entry may stay behind
    "for i in 1 2; do fbrk; done", "for i in 1 2 3; do tag=$i fcont a b; done", "while :; do X=1 fbrk x; break; done", "for i in 1 2; do for j in 1 2; do fbrk2; done; done",
    "pushd /nonexistent-verif-dir; echo \"ds ${#DIRSTACK[@]}\"", "popd; echo \"ds ${#DIRSTACK[@]}\"", "pushd -n /tmp >/dev/null; popd -n >/dev/null; echo \"ds ${#DIRSTACK[@]}\"",
    "alias q=echo; unalias q", "pushd / >/dev/null; popd >/dev/null", "set -- a b; shift", "hash -r", "type nosuchcmd", "command -v ls >/dev/null", "wait",
]

PRELUDE = r'''mkdir -p sub; printf 'l1\nl2\n' > in; echo ':' > ok.sh
ffail() { local lv=1; return 1; }
fret() { for i in 1 2; do while :; do return 3; done; done; }
floop() { for i in 1 2; do for j in 1 2; do continue 2; done; done; }
fdef() { echo infdef; } > /nonexistent-dir/x
fdefok() { echo infdef; } > fdefok.out
g1() { local l=1; ./missing-cmd; X=1 /nonexistent/bin/cmd; }
fsub() ( exit 4 )
fbrk() { break; }
fcont() { local lc=$1; continue; }
fbrk2() { break 2; }
source_ok() { . ./ok.sh; }
fpsub() { local l; read -r l < <(gen 200000 9); return 2; }
e() { echo "@m $1"; return $2; }
probe() {
  if [ -n "${BRUSH_SAVE-}" ]; then save > "$D/$1.json" 2>/dev/null; fi
  echo "${#FUNCNAME[@]}" > "$D/$1.depth"
  jobs > "$D/$1.jobs" 2>&1
  # asynchronous clean-up (process substitutions, finished background tasks) may lag behind on a loaded machine: poll until two
  # consecutive samples agree and show no zombie, for at most 15 s; the checker takes the minimum over the samples
  _pi=0; _pb=
  while [ $_pi -lt 150 ]; do
    "$TOOLDIR/fdcount" -o "$D/$1.fdc" $$
    _pa=$(tail -n 1 "$D/$1.fdc")
    if [ $_pi -ge 2 ] && [ "$_pa" = "$_pb" ]; then case $_pa in *" zombies=0 "*) break;; esac; fi
    _pb=$_pa; _pi=$((_pi+1))
    "$TOOLDIR/msleep" 100
  done
}
'''


def script(body, n):
    s = PRELUDE + "iter() {\n%s\n}\n" % body
    s += "iter >/dev/null 2>&1\niter > \"$D/out.2\" 2>&1\nwait\nprobe n2 >/dev/null 2>&1\n"
    s += "k=2; while [ $k -lt %d ]; do k=$((k+1)); iter >/dev/null 2>&1; done\n" % (n - 1)
    s += "iter > \"$D/out.n\" 2>&1\nwait\nprobe nN >/dev/null 2>&1\necho '@end'\n"
    return s


def gen_body(rng):
    parts = []
    for _ in range(rng.randint(1, 4)):
        r = rng.random()
        if r < 0.65:
            parts.append(rng.choice(FAULTS))
        else:
            g = gen_prog.Gen(random.Random(rng.getrandbits(64)), max_depth=3, max_nodes=10, avoid={"ctl_outside", "level_beyond"}, funcs=False)
            t = g.seq(0, {"in_func": True}, 2)
            parts.append(gen_prog.render(t, probes=False))
    return "\n".join(parts)


def read_metrics(d, tag):
    m = {}
    try:
        with open(os.path.join(d, tag + ".json")) as f:
            j = json.load(f)
        m["scopes"] = len(j["env"]["scopes"])
        m["frames"] = len(j["call_stack"]["frames"]) if isinstance(j.get("call_stack"), dict) and "frames" in j["call_stack"] else None
        of = j.get("open_files", {})
        m["virtual_fds"] = len(of.get("files", of)) if isinstance(of, dict) else None
    except (OSError, ValueError, KeyError, TypeError):
        pass
    try:
        with open(os.path.join(d, tag + ".depth")) as f:
            m["funcname_depth"] = int(f.read().strip() or 0)
    except (OSError, ValueError):
        pass
    try:
        with open(os.path.join(d, tag + ".jobs")) as f:
            m["jobs_lines"] = len([l for l in f.read().split("\n") if l.strip()])
    except OSError:
        pass
    try:
        with open(os.path.join(d, tag + ".fdc")) as f:
            totals, zombies, children = [], [], []
            for line in f:
                kv = dict(x.split("=") for x in line.split()[1:] if "=" in x)
                totals.append(int(kv["total"]))
                zombies.append(int(kv["zombies"]))
                children.append(int(kv.get("children", 0)))
            if totals:
                m["os_fds"] = min(totals)
                m["zombies"] = min(zombies)
                m["children"] = min(children)
    except (OSError, ValueError, KeyError):
        pass
    return m


def judge(run, case):
    body, n = case
    d = core.new_scratch("l18")
    dd = os.path.join(d, "probe")
    os.mkdir(dd)
    r = core.run_shell("brush", script(body, n), d, env_extra={"D": dd, "TOOLDIR": core.TOOLS, "BRUSH_SAVE": "1"}, timeout=120)
    run.evaluations += 1
    ck = core.crash_kind(r)
    m2, mn = read_metrics(dd, "n2"), read_metrics(dd, "nN")
    try:
        with open(os.path.join(dd, "out.2"), "rb") as f:
            o2 = f.read()
        with open(os.path.join(dd, "out.n"), "rb") as f:
            on = f.read()
    except OSError:
        o2 = on = None
    core.rmtree(d)
    if ck:
        run.violation("C18|crash|" + ck, {"kind": "crash", "body": body, "stderr": core.txt(r.err[-400:])})
        return
    if r.timed_out or b"@end" not in r.out or "scopes" not in m2 or "scopes" not in mn:
        # the body ended the session (exit, fatal error): no N-invariance statement possible for it
        run.count("session_ended_early")
        run.inconclusive_bodies.append(body)
        return
    bad = []
    for k in ("scopes", "frames", "virtual_fds", "funcname_depth", "zombies", "jobs_lines"):
        if m2.get(k) is not None and mn.get(k) is not None and m2[k] != mn[k]:
            bad.append((k, m2[k], mn[k]))
    if "os_fds" in m2 and "os_fds" in mn:
        growth = mn["os_fds"] - m2["os_fds"]
        if growth >= max(12, n // 4):
            bad.append(("os_fds", m2["os_fds"], mn["os_fds"]))
        elif growth >= 5:
            run.count("os_fd_growth_inconclusive")
    # live (not only zombie) children left behind: a producer whose consumer went away must have been told (SIGPIPE / closed pipe)
    if m2.get("children") is not None and mn.get("children") is not None:
        cg = mn["children"] - m2["children"]
        if cg >= max(6, n // 8):
            bad.append(("live_children", m2["children"], mn["children"]))
        elif cg >= 3:
            run.count("live_children_growth_inconclusive")
    if o2 is not None and o2 != on:
        bad.append(("iteration_output", hashlib.sha1(o2).hexdigest()[:8], hashlib.sha1(on).hexdigest()[:8]))
    if not bad:
        run.note_nontrivial(body)
        run.count("bodies_ok")
        run.metrics_seen.add((m2.get("scopes"), m2.get("frames"), m2.get("virtual_fds")))
        return
    # find the single fault line responsible (for the signature)
    culprit = body.split("\n")[0][:50]
    sig = "C18|%s|%s" % (",".join(b[0] for b in bad), culprit)
    run.violation(sig, {"kind": "leak", "body": body, "iterations": n, "after_2": m2, "after_N": mn, "differences": bad,
                        "script": script(body, n)})


def run(run):
    quick = run.tier == "quick"
    scale = getattr(run, "scale", 1.0)
    rng = run.rng("c18")
    run.inconclusive_bodies = []
    run.metrics_seen = set()
    n = 40 if quick else 300
    run.rule = ("bodies = every fault leaf alone (%d) + random bodies of 1-4 statements (fault leaves and grammar-generated control flow), "
                "each run N=%d times in one shell; scopes / frames / virtual fds from `save`, ${#FUNCNAME[@]}, zombies, job table compared "
                "exactly between iteration 2 and N, OS descriptors by growth (>= max(12, N/4)), iteration output byte-equal. "
                "non-trivial = distinct bodies that ran all N iterations and were invariant" % (len(FAULTS), n))
    run.assumptions = ["iteration 1 is warm-up (tokio signal driver, path cache)", "OS fd count jitters by a few (pidfds): growth criterion, not equality",
                       "a body that ends the session (fatal error) gives no N-invariance statement and is counted separately"]
    cases = [(f, n) for f in FAULTS]
    for _ in range(int((110 if quick else 3000) * scale)):
        cases.append((gen_body(random.Random(rng.getrandbits(64))), n))
    if not quick:
        for f in FAULTS:
            cases.append((f, 1500))
    core.pmap(lambda c: judge(run, c), cases)
    run.count("bodies", len(cases))
    run.extra["session_ended_early_samples"] = run.inconclusive_bodies[:5]
    run.extra["distinct_metric_tuples"] = len(run.metrics_seen)
    run.sample({"body": cases[len(FAULTS)][0], "iterations": n})
    run.sample({"body": FAULTS[0], "script": script(FAULTS[0], n)})
    # a body that ends the session is not an inconclusive *run*
    run.inconclusive = 0


def replay(path):
    with open(path) as f:
        rp = json.load(f)
    r = core.Run("C18", "quick", 0)
    r.inconclusive_bodies = []
    r.metrics_seen = set()
    judge(r, (rp["body"], rp.get("iterations", 40)))
    return 1 if r.violations else 0
