"""C09 — variable scope and attributes: locals, temporary assignments, export, readonly.

Monitor: generated action sequences (declare/local/export/readonly/unset/assignment/+=/array elements/for/read/
printf -v/(( ))/${v:=}/getopts/mapfile, temporary-assignment prefixes on builtins, functions and external commands,
function calls nested to depth 3); after EVERY step a structured probe records, for each of 4 names, existence,
set-ness, attribute set, keys and values (through an external argv dumper) and what a child process sees in its
environment. Probes are compared with bash step by step. Independently of bash: once a variable is readonly its
value and attributes must never change again (checked on brush's own probe stream).
"""
import json
import random

from . import core

NAMES = ["A", "B", "C", "D"]

PRELUDE = r'''pr() {
  local _n _st _at _set
  for _n in A B C D; do
    if declare -p "$_n" >/dev/null 2>&1; then _st=decl; else _st=none; fi
    eval "_set=\${$_n+s}\${$_n[@]+a}"
    eval "_at=\${$_n@a}"
    eval 'argdump -t "p.'"$1"'.'"$_n"'" -- "$_st" "$_set" "$_at" "${#'"$_n"'[@]}" "${!'"$_n"'[@]}" "${'"$_n"'[@]}"'
  done
  envdump -t "e.$1" A B C D
}
'''


class Gen:
    def __init__(self, rng):
        self.rng = rng
        self.tag = 0
        self.funcs = []
        self.readonly = set()

    def newtag(self):
        self.tag += 1
        return "s%d" % self.tag

    def val(self):
        return self.rng.choice(["x", "Yy", "7", "a b", "", "3+4", "zz9"])

    def action(self, in_func, depth):
        r = self.rng
        n = r.choice(NAMES)
        w = r.choice(NAMES)
        kinds = ["assign", "assign", "append", "elem", "arrappend", "arrassign", "declare", "declare", "export", "unset", "unsetelem",
                 "for", "read", "printfv", "arith", "dflt", "getopts", "mapfile", "tmp", "tmp", "readonly", "declare_plus"]
        if in_func:
            kinds += ["local", "local", "local", "declare_g"]
        if depth < 3:
            kinds += ["call", "call"]
        k = r.choice(kinds)
        v = self.val()
        if k == "assign":
            return "%s=%s" % (n, q(v))
        if k == "append":
            return "%s+=%s" % (n, q(v))
        if k == "elem":
            return "%s[%d]=%s" % (n, r.choice([0, 1, 5]), q(v))
        if k == "arrappend":
            return "%s+=(%s)" % (n, q(v))
        if k == "arrassign":
            return "%s=(%s %s)" % (n, q(v), q(self.val()))
        if k == "declare":
            flag = r.choice(["-i", "-l", "-u", "-a", "-A", "-x", "-lx", "-a", "-A", ""])
            if r.random() < 0.5 or flag in ("-a", "-A"):
                return "declare %s %s" % (flag, n)
            return "declare %s %s=%s" % (flag, n, q(v))
        if k == "declare_plus":
            return "declare %s %s" % (r.choice(["+x", "+i", "+l", "+u"]), n)
        if k == "declare_g":
            return "declare -g %s=%s" % (n, q(v))
        if k == "local":
            flag = r.choice(["", "", "-i", "-a", "-x", "-l"])
            if r.random() < 0.4:
                return "local %s %s" % (flag, n)
            return "local %s %s=%s" % (flag, n, q(v))
        if k == "export":
            return r.choice(["export %s=%s" % (n, q(v)), "export %s=%s" % (n, q(v)), "export -n %s" % n])
        if k == "readonly":
            self.readonly.add(n)
            return r.choice(["readonly %s=%s" % (n, q(v)), "declare -r %s=%s" % (n, q(v))])
        if k == "unset":
            return "unset %s" % n
        if k == "unsetelem":
            return "unset '%s[1]'" % n
        if k == "for":
            return "for %s in p %s; do :; done" % (n, q(v))
        if k == "read":
            return "read %s <<< %s" % (n, q(v + " tail"))
        if k == "printfv":
            return "printf -v %s '%%s-%%s' %s k" % (n, q(v))
        if k == "arith":
            return "(( %s = 3 + 4 ))" % n
        if k == "arithinc":
            return "(( %s++ )) || :" % n
        if k == "dflt":
            return ": ${%s:=%s}" % (n, q(v))
        if k == "getopts":
            return "OPTIND=1; getopts ab %s -b" % n
        if k == "mapfile":
            return "mapfile -t %s <<< $'l1\\nl2'" % n
        if k == "tmp":
            t = self.newtag()
            cmd = r.choice([":", "eval 'pr %s'" % t, "envdump -t x.%s A B C D" % t, "tf_%s" % t, "true", "pr %s" % t, "read %s <<< rr" % w,
                            "declare -p %s >/dev/null" % n, "cd ."])
            pre = "%s=%s" % (n, q(v))
            if r.random() < 0.3:
                pre += " %s=%s" % (w, q(self.val()))
            if cmd.startswith("tf_"):
                self.funcs.append("%s() { pr %s; %s; pr %sb; }" % (cmd, t, self.simple_mut(w), t))
            return "%s %s" % (pre, cmd)
        if k == "call":
            name = "fn%d" % (len(self.funcs) + 1)
            self.funcs.append(None)
            idx = len(self.funcs) - 1
            body = []
            for _ in range(r.randint(1, 3)):
                body.append(self.action(True, depth + 1))
                body.append("pr %s" % self.newtag())
            self.funcs[idx] = "%s() {\n  %s\n}" % (name, "\n  ".join(body))
            return name
        return ":"

    def simple_mut(self, n):
        return self.rng.choice(["%s=infn" % n, "local %s=loc" % n, ":", "unset %s" % n, "unset %s; pr %sU; %s=after" % (n, self.newtag(), n)])


def q(v):
    return "'" + v.replace("'", "'\\''") + "'"


def gen_seq(rng):
    g = Gen(rng)
    steps = []
    for _ in range(rng.randint(2, 8)):
        a = g.action(False, 0)
        steps.append(a)
        steps.append("pr %s" % g.newtag())
    return steps, g.funcs


def attribute_family():
    """Systematic: every attribute set x every attribute removal x every kind of writer, at top level and on a function local
    (with a callee writing to it): what the attribute does to the *next* writes is what the statement promises."""
    out = []
    sets = ["-u", "-l", "-x", "-ux", "-lx", "-a", "-ua", "-A", ""]
    pluses = [None, "+u", "+l", "+x", "+ux"]
    writers = [["A='Yy'"], ["A+='Zz'"], ["read A <<< 'Rr tail'"], ["printf -v A '%s-%s' 'Pp' k"], ["for A in p 'Ff'; do :; done"],
               ["A[1]='Ee'"], ["A=('Gg' 'Hh')"], ["A+=('Ii')"], ["unset A", ": ${A:='Dd'}"], ["mapfile -t A <<< $'Mm\\nNn'"],
               ["A='Tt' envdump -t x.t A"], ["export A", "A='Xx'"], ["declare A='Qq'"]]
    for st in sets:
        for pl in pluses:
            for wr in writers:
                n = [0]

                def tag():
                    n[0] += 1
                    return "s%d" % n[0]
                steps = []
                for stp in ["declare %s A" % st if st else "A='init'"] + (["declare %s A" % pl] if pl else []) + wr + ["A+='Ww'"]:
                    steps += [stp, "pr %s" % tag()]
                out.append((steps, []))
                # the same on a local of fn1, written by the callee fn2
                body = ["local %s A" % st if st else "local A='init'"] + (["declare %s A" % pl] if pl else [])
                fb = []
                for stp in body:
                    fb += [stp, "pr %s" % tag()]
                fb += ["fn2", "pr %s" % tag()]
                f2 = []
                for stp in wr:
                    f2 += [stp, "pr %s" % tag()]
                funcs = ["fn1() {\n  %s\n}" % "\n  ".join(fb), "fn2() {\n  %s\n}" % "\n  ".join(f2)]
                out.append((["fn1", "pr %s" % tag()], funcs))
    return out


def render(steps, funcs):
    return PRELUDE + "\n".join(f for f in funcs if f) + "\n" + "pr s0\n" + "\n".join(steps) + "\necho '@end'\n"


# ---- regions of open findings ------------------------------------------------------------------------------

def region(steps, funcs):
    text = "\n".join(steps) + "\n" + "\n".join(f for f in funcs if f)
    lines = [l.strip() for l in text.split("\n")]
    import re
    ro = set()
    arrays = set()
    for l in lines:
        m = re.match(r"(readonly|declare -r) ([A-D])\b", l)
        if m:
            ro.add(m.group(2))
        m = re.match(r"(declare|local) +-[aA]\w* ([A-D])\b|([A-D])(\+?=\(|\[\d+\]=)|mapfile -t ([A-D])|unset '([A-D])\[", l)
        if m:
            arrays.add(next(g for g in (m.group(2), m.group(3), m.group(5), m.group(6)) if g))
    for l in lines:
        # an array cannot be exported in bash; brush passes element 0 to children (open finding C09-F2)
        m = re.match(r"(export|declare -\w*x\w*|local -\w*x\w*) ([A-D])\b", l)
        if m and m.group(2) in arrays:
            return "export-of-array"
        # `NAME=v f` where f declares `local NAME`: bash's local inherits the export attribute of the temporary assignment
        m = re.search(r"tf_(s\d+)$", l)
        if m:
            for f in funcs:
                if f and f.startswith("tf_%s()" % m.group(1)):
                    for n in NAMES:
                        if re.search(r"(^| )%s='" % n, l) and ("local %s=" % n) in f:
                            return "local-shadowing-temporary-assignment"
    exported = set(m.group(2) for m in re.finditer(r"(export|declare -\w*x\w*|local -\w*x\w*) ([A-D])\b", text))
    fn_text = "\n".join(f for f in funcs if f)
    for n in NAMES:
        decl_arr = re.search(r"(declare|local) +-[aA] %s\b(?!=)" % n, text)
        other_decl = len(re.findall(r"(declare|local|export|readonly)( +[-+]\w+)* +%s\b" % n, text))
        if decl_arr and other_decl > 1:
            return "array-redeclaration-of-declared-scalar"
        # a function-level declaration of a name that is exported: bash's local inherits the export attribute
        if n in exported and re.search(r"(declare|local)( +[-+][^g ]\w*)* +%s\b" % n, fn_text):
            return "local-shadowing-exported"
        if re.search(r"(declare|local) +-A %s\b" % n, text) and re.search(r"\b%s\+?=\(" % n, text):
            return "assoc-compound-without-keys"
    for l in lines:
        # any write attempt to a readonly name (other than the readonly declaration itself): brush aborts the script for
        # several writers where bash reports and continues
        for n in ro:
            if l.startswith(("readonly ", "declare -r ")):
                continue
            if writes(l, n):
                return "write-to-readonly"
        if l.startswith("export ") and "=" not in l and "-n" not in l:
            return "export-unset-name"
        if " export " in (" " + l) and "=" in l.split(" export ")[0] and l.split()[0].count("=") == 1 and not l.startswith("export"):
            return "tmp-assign-before-export"
    if any(l.startswith(("declare -i", "local -i", "declare -lx")) or " -i " in l for l in lines):
        return "integer-attribute"
    # bash 5.2 quirk, not a finding: `declare -g N=v` inside a function that has a local N, while the *global* N is an array, turns
    # the local into an array and leaves the global alone (with a scalar global it assigns the global, as documented and as brush does)
    for n in arrays:
        if re.search(r"declare -g %s\b" % n, fn_text) and re.search(r"(local|declare)( +[-+][^g ]\w*)* +%s\b" % n, fn_text):
            return "declare-g-with-local-and-array-global(bash-quirk)"
    return None


def writes(l, n):
    import re
    return bool(re.search(r"(^|[ ;(])%s(\[[^]]*\])?(\+?=|\+\+)" % n, l) or re.search(r"\b(for|read|mapfile -t|getopts ab|printf -v|unset|local( -\w+)?|declare( [-+]\w+)?|export( -n)?) '?%s\b" % n, l)
                or "${%s:=" % n in l or "(( %s" % n in l)


def parse(out):
    obs = []
    for line in out.decode("utf-8", "replace").split("\n"):
        if line.startswith("@Ap.") or line.startswith("@Ee.") or line.startswith("@Ex.") or line == "@end":
            obs.append(normalize(line))
    return obs


def normalize(line):
    if not line.startswith("@Ap."):
        return line
    head, _, rest = line.partition(" ")
    parts = rest.split(" ")
    try:
        argc = int(parts[0])
    except ValueError:
        return line
    args = parts[1:]
    if len(args) < 4:
        return line
    st, sett, at, cnt = args[0], args[1], args[2], args[3]
    at_s = "".join(sorted(bytes.fromhex(at).decode() if at != "-" else ""))
    try:
        n = int(bytes.fromhex(cnt).decode())
    except ValueError:
        n = 0
    rest_args = args[4:]
    keys, vals = rest_args[:n], rest_args[n:2 * n]
    pairs = sorted(zip(keys, vals))
    return "%s %s %s %s %s" % (head, st, sett, at_s, pairs)


def run_one(shell, script):
    d = core.new_scratch("v9")
    r = core.run_shell(shell, script, d, timeout=30)
    core.rmtree(d)
    return parse(r.out), r


def readonly_invariant(obs, script, top_tags=None):
    """On brush's own probe stream: after a name first shows attribute r at top level (a `declare -r` inside a function is
    a local), its (attrs, pairs) never change in later top-level probes."""
    frozen = {}
    for line in obs:
        if not line.startswith("@Ap."):
            continue
        head, st, sett, at, pairs = line.split(" ", 4)
        name = head.rsplit(".", 1)[1]
        tag = head.split(".")[1]
        if top_tags is not None and tag not in top_tags:
            continue
        if name in frozen:
            if frozen[name] != (at, pairs) and "r" in frozen[name][0]:
                return "readonly %s changed from %s to %s at %s" % (name, frozen[name], (at, pairs), head)
        if "r" in at:
            if name not in frozen:
                frozen[name] = (at, pairs)
    return None


def judge(run, case, origin="random"):
    steps, funcs = case
    script = render(steps, funcs)
    ob, rb = run_one("brush", script)
    oh, rh = run_one("bash", script)
    run.evaluations += 1
    ck = core.crash_kind(rb)
    if not oh or oh[-1] != "@end":
        run.count("bash_incomplete")
        run.inconclusive += 1
        return
    top_tags = set(x.split()[1] for x in steps if x.startswith("pr ")) | {"s0"}
    # only scripts that make something readonly at top level are subject to the invariant
    inv = readonly_invariant(ob, script, top_tags) if any(x.startswith(("readonly ", "declare -r ")) for x in steps) else None
    if ob == oh and not ck and not inv:
        for s in steps:
            if not s.startswith("pr "):
                run.note_nontrivial(s.split("=")[0].split(" ")[0] + ("@fn" if s.startswith("fn") else ""))
        run.count("probes_compared", len(oh))
        return
    # shrink: drop steps while the divergence persists
    cur = list(steps)
    changed = True
    budget = 40
    while changed and budget > 0:
        changed = False
        for i in range(0, len(cur), 2):
            cand = cur[:i] + cur[i + 2:]
            if not cand:
                continue
            budget -= 1
            if region(cand, funcs):
                continue
            o1, r1 = run_one("brush", render(cand, funcs))
            o2, r2 = run_one("bash", render(cand, funcs))
            if o2 and o2[-1] == "@end" and (o1 != o2 or core.crash_kind(r1)):
                cur = cand
                changed = True
                break
    script2 = render(cur, funcs)
    o1, r1 = run_one("brush", script2)
    o2, _ = run_one("bash", script2)
    first = next((i for i in range(min(len(o1), len(o2))) if o1[i] != o2[i]), min(len(o1), len(o2)))
    kinds = sorted(set(s.split(" ")[0] if not s.startswith(NAMES_T) else "assign" for s in cur if not s.startswith("pr ")))
    sig = "C09|%s|%s" % (",".join(kinds)[:60], "readonly-invariant" if inv else ("crash:" + ck if ck else "probe-differs"))
    run.violation(sig, {"kind": "sequence", "script": script2, "steps": cur, "origin": origin,
                        "brush_probe": o1[first] if first < len(o1) else None, "bash_probe": o2[first] if first < len(o2) else None,
                        "readonly_invariant": inv, "crash": ck, "stderr": core.txt(r1.err[-600:])})


NAMES_T = tuple(n + "=" for n in NAMES) + tuple(n + "+" for n in NAMES) + tuple(n + "[" for n in NAMES)


def run(run):
    quick = run.tier == "quick"
    scale = getattr(run, "scale", 1.0)
    rng = run.rng("c09")
    run.rule = ("random action sequences of 2-8 top-level steps over 23 action kinds on 4 names, with function calls nested to depth 3 and "
                "temporary-assignment prefixes on builtins / eval / functions / external commands; a probe after every step dumps "
                "existence, set-ness, attribute set, sorted key/value pairs and the child-environment view of each name; probe streams "
                "compared with bash step by step; readonly invariance checked on brush's own stream. "
                "non-trivial = distinct action kinds exercised in sequences that agreed")
    run.assumptions = ["bash 5.2.15 reference", "attribute letters compared as a set; associative keys sorted",
                       "regions of open findings (writes to readonly names, export of unset names, NAME=v export NAME, integer attribute) are not generated; canaries watch them"]
    from . import diffrun
    diffrun.run_canaries(run, prelude=PRELUDE)
    n = int((1500 if quick else 40000) * scale)
    cases = []
    while len(cases) < n:
        c = gen_seq(random.Random(rng.getrandbits(64)))
        reg = region(*c)
        if reg:
            run.count("skipped_region:" + reg)
            continue
        cases.append(c)
    fam = attribute_family()
    if quick:
        rng.shuffle(fam)
        fam = fam[: int(400 * scale)]
    kept = 0
    for c in fam:
        reg = region(*c)
        if reg:
            run.count("skipped_region:" + reg)
            continue
        cases.append(c)
        kept += 1
    run.count("attribute_family_cases", kept)
    core.pmap(lambda c: judge(run, c), cases)
    run.sample({"script": render(*cases[0])})


def replay(path):
    with open(path) as f:
        rp = json.load(f)
    o1, r1 = run_one("brush", rp["script"])
    o2, _ = run_one("bash", rp["script"])
    first = next((i for i in range(min(len(o1), len(o2))) if o1[i] != o2[i]), None)
    print(json.dumps({"first_diff_index": first, "brush": o1[first] if first is not None else None, "bash": o2[first] if first is not None else None,
                      "stderr": core.txt(r1.err[-400:])}, indent=1))
    if o1 != o2 or core.crash_kind(r1):
        print("VIOLATION property=C09 replay=%s" % path)
        return 1
    return 0
