"""C19 — syntax highlighting covers the typed line exactly.

In-process monitor (vharness highlight-*): for every (line, cursor) the spans returned by the real
`highlight_command` must be ordered, contiguous, non-overlapping, on char boundaries, cover the line and render back
to it; panics and hangs (watchdog on logical progress) are violations too.
"""
import json
import os

from . import core, inproc, mutate


def absorb(run, res, origin):
    if res.get("harness_timeout") or res.get("harness_error"):
        raise core.Inconclusive("vharness failed (%s): %s" % (origin, json.dumps(res)[:600]))
    if res.get("hang"):
        run.evaluations += 1
        run.violation("C19|hang|" + res.get("case", "")[:80], {"kind": "hang", "case": res.get("case"), "origin": origin})
        return
    run.evaluations += res["calls"]
    run.count(origin + "_lines", res["lines"])
    run.count(origin + "_calls", res["calls"])
    run.count(origin + "_multi_span_lines", res["multi_span_lines"])
    run.shapes += res["distinct_span_shapes"]
    for s in res.get("samples", [])[:3]:
        run.sample(s)
    for v in res["violations"]:
        what = v["what"]
        kind = what.split(":")[0].split(" ")[0] if not what.startswith("panic") else "panic"
        sig = "C19|%s|%s" % (kind, classify(v["line"]))
        run.violation(sig, {"kind": "span", "line": v["line"], "cursor": v["cursor"], "what": what, "origin": origin})


def classify(line):
    cls = set()
    for ch in line:
        if ord(ch) > 127:
            cls.add("mb")
        elif ch in "\"'`\\":
            cls.add("quote")
        elif ch in "$":
            cls.add("dollar")
        elif ch in "(){}":
            cls.add("paren")
        elif ch in "<>|&;":
            cls.add("op")
        elif ch == "\n":
            cls.add("nl")
        elif ch == "#":
            cls.add("hash")
    return "+".join(sorted(cls))


# construct templates with two slots: slot X takes every string up to length 2 over SLOT, slot Y up to length 1 (quick) / 2 (thorough).
# They reach lines of length 7-15 in exactly the shapes where the highlighter re-maps nested text onto the line.
TEMPLATES = ["`X`Y", "`\\`X`Y", "`X\\`Y`", "$(X)Y", "$( X)Y", "\"X\"Y", "'X'Y", "$'X'Y", "${X}Y", "${a:-X}Y", "$((X))Y", "<<X\nY", "<<-X\nY", "<<\"X\"\nY", "<<''X\nY",
             "a <<E X\nY\nE\n", "X <<E | Y\nb\nE", "a <<E <<F\nX\nE\nY\nF\n", "\"$(X)\"Y", "\"`X`\"Y", "$(`X`)Y", "`$(X)`Y", "{ X;}Y", "(X)Y", "X\\\nY", "a=X Y", "#X\nY", "a;X|Y",
             "\"${a:-X}\"Y", "<(X)Y", "[[ X ]]Y", "((X))Y", "case X in Y) esac", "if X; then Y; fi", "X &> Y", "a <<<X Y", "X() { Y; }", "$\"X\"Y", "a 2>X Y", "é`X`éY", "<<X Y", "a <<X Y", "a <<-X\tY", "a <<X;Y", "$(a <<X Y)"]
SLOT = ["a", " ", "\n", "\"", "'", "`", "\\", "$", "<", "(", ")", "é", "#", ";"]


def template_lines(ylen):
    def strings(n):
        out = [""]
        layer = [""]
        for _ in range(n):
            layer = [p + c for p in layer for c in SLOT]
            out += layer
        return out
    xs, ys = strings(2), strings(ylen)
    for t in TEMPLATES:
        for x in xs:
            tx = t.replace("X", x)
            for y in ys:
                yield tx.replace("Y", y)


def run(run):
    quick = run.tier == "quick"
    scale = getattr(run, "scale", 1.0)
    run.shapes = 0
    rng = run.rng("corpus")
    maxlen = 4 if quick else 5
    run.rule = ("every line over the 21-symbol alphabet {a space newline ; | & < > ( ) { } $ \" ' ` \\ # = e-acute rocket} up to length %d x "
                "every char-boundary cursor (exhaustive), a %s sample of length %d, plus grammar-generated / mutated / nested "
                "lines with all their prefixes; span algebra checked on each call. distinct_nontrivial = number of distinct "
                "(span kind, length) sequences observed (measured in the harness), i.e. structurally different highlight results"
                % (maxlen, "1/40" if quick else "1/8", maxlen + 1))
    run.assumptions = ["PATH is emptied so command classification does not walk the file system",
                       "reedline's own rendering is not driven; its input is exactly these spans"]
    res = inproc.run_harness(["highlight-exhaustive", "--maxlen", maxlen])
    absorb(run, res, "exhaustive")
    # sharded sample of the next length
    shards = 40 if quick else 8
    res = inproc.run_harness(["highlight-exhaustive", "--maxlen", maxlen + 1, "--shard", run.seed % shards, "--shards", shards])
    absorb(run, res, "sample_next_len")
    d = core.new_scratch("hl")
    lines = mutate.corpus_lines(rng, int((3000 if quick else 60000) * scale))
    path = os.path.join(d, "lines.hex")
    inproc.write_hex(path, lines)
    res = inproc.run_harness(["highlight-lines", "--file", path])
    absorb(run, res, "corpus")
    run.sample({"corpus_line": lines[len(lines) // 2]})
    tl = list(template_lines(1 if quick else 2))
    inproc.write_hex(path, tl)
    res = inproc.run_harness(["highlight-lines", "--file", path, "--prefixes", "0"], timeout=3000)
    absorb(run, res, "templates")
    run.extra["templates"] = len(TEMPLATES)
    for i in range(run.shapes):
        if i >= 3:
            break
    run.nontrivial = set(range(run.shapes))   # count measured by the harness (distinct span-shape hashes)
    run.extra["exhaustive_maxlen"] = maxlen
    run.extra["alphabet"] = 21


def replay(path):
    with open(path) as f:
        rp = json.load(f)
    d = core.new_scratch("hl")
    p = os.path.join(d, "l.hex")
    inproc.write_hex(p, [rp["line"]])
    res = inproc.run_harness(["highlight-lines", "--file", p, "--prefixes", "0"])
    print(json.dumps(res, indent=1)[:2000])
    if res.get("violations") or res.get("hang"):
        print("VIOLATION property=C19 replay=%s" % path)
        return 1
    return 0
