"""C03 — errexit, nounset and pipefail stop the shell exactly where bash does.

Monitor: last-marker / exit comparator on generated programs under option combinations; reference = bash 5.2.
For nounset / `${v:?}` aborts the *position* and non-zero-ness are compared, not the numeric status
(bash 127 vs brush 1 is not part of the statement).
"""
import itertools
import json
import random

from . import core, diffrun, gen_prog

OPTSETS = [
    ("e",), ("e", "pipefail"), ("e", "E"), ("e", "inherit"), ("e", "pipefail", "E", "inherit"), ("pipefail",), (),
    ("E",), ("E", "pipefail"),
]


class G3(gen_prog.Gen):
    """Control-flow grammar plus pipelines, command substitutions, eval, option toggles."""

    def __init__(self, rng, **kw):
        super().__init__(rng, allow_ctl=False, **kw)
        self.constructs = ["leaf", "leaf", "and", "or", "not", "if", "while", "until", "for", "case", "group",
                           "subshell", "call", "pipe", "subst", "eval", "setopt"]

    def node(self, depth, ctx):
        r = self.rng
        if depth < self.max_depth and self.nodes < self.max_nodes and r.random() < 0.3:
            kind = r.choice(["pipe", "subst", "eval", "setopt"])
            self.nodes += 1
            self.features.add(kind)
            d = depth + 1
            if kind == "pipe":
                n = r.choice([2, 2, 3])
                stages = []
                for _ in range(n):
                    if r.random() < 0.7:
                        stages.append(self.leaf(ctx))
                    else:
                        stages.append(("group", self.seq(d + 1, ctx, 2)))
                return ("pipe", stages)
            if kind == "subst":
                form = r.choice(["assign", "arg", "echo", "local", "nested"])
                inner = self.seq(d, dict(ctx, in_subshell=True), 2)
                if form == "assign":
                    return ("wrap", "subst:assign", "x=$(\n{}\n)", inner)
                if form == "arg":
                    return ("wrap", "subst:arg", ": \"$(\n{}\n)\"", inner)
                if form == "echo":
                    return ("wrap", "subst:echo", "echo \"@v $(\n{}\n)\" >&3", inner)
                if form == "local" and ctx.get("in_func"):
                    return ("wrap", "subst:local", "local y=$(\n{}\n)", inner)
                return ("wrap", "subst:nested", "x=$(echo \"$(\n{}\n)\")", inner)
            if kind == "eval":
                if ctx.get("in_eval"):
                    return self.leaf(ctx)
                inner = self.seq(d, dict(ctx, in_eval=True), 2)
                return ("wrap", "eval", "eval '\n{}\n'", inner)
            if kind == "setopt":
                return ("raw", r.choice(["set +e", "set -e", "set -o pipefail", "set +o pipefail", "set -e"]))
        return super().node(depth, ctx)


def header(opts, errtrap):
    s = ""
    if "inherit" in opts:
        s += "shopt -s inherit_errexit\n"
    flags = []
    if "e" in opts:
        flags.append("-e")
    if "E" in opts:
        flags.append("-E")
    if "pipefail" in opts:
        flags.append("-o pipefail")
    if flags:
        s += "set %s\n" % " ".join(flags)
    if errtrap:
        s += "trap 'echo \"@err $?\" >&3' ERR\n"
    return s


def render_case(case):
    body, funcs, opts, errtrap = case
    s = gen_prog.PRELUDE3 + header(opts, errtrap)
    for name, fb in funcs.items():
        s += "%s() {\n  %s\n}\n" % (name, gen_prog.render(fb, True, 1))
    s += gen_prog.render(body, True, 0) + "\n"
    s += 'echo "@end $?" >&3\n'
    return s


def obs3(res):
    return diffrun.observe(res)


def hazards(body, funcs, errtrap):
    """Shapes outside what the statement demands.

    With an ERR trap set, bash 5.2 fires ERR for the last command of a list *inside* a negated group
    (`! { a || b; }` prints from the trap although the failure is in an exempt context) - a bash quirk about the
    ERR trap, not about where the shell stops; such shapes are not generated when the ERR trap marker is on."""
    if setopt_in_exempt(body, funcs):
        return "set-option-inside-exempt-context"
    if not errtrap:
        return None
    # open finding C03-F1: while an errexit exit propagates outwards brush fires ERR again at every enclosing function
    # call / eval (the repository's own suite carries it as a known failure). The ERR marker is therefore only used in
    # programs that never turn errexit on; the canary watches the defect itself.
    for t in [body] + list(funcs.values()):
        for n in gen_prog.walk(t):
            if n[0] == "raw" and n[1] == "set -e":
                return "errtrap-with-errexit"
    for t in [body] + list(funcs.values()):
        for n in gen_prog.walk(t):
            if n[0] == "not" and n[1][0] != "leaf":
                return "errtrap-in-negated-compound"
    return None


def setopt_in_exempt(body, funcs):
    """`set -e` / `set +e` executed while errexit is being ignored (inside `!`, a condition, a non-final && || operand):
    bash's behaviour there is an implementation artifact (the builtin resets its internal ignore state); the statement
    speaks of toggling at arbitrary *points* of the program, which the generator does in non-exempt positions."""
    hit = []

    def rec(n, ex):
        k = n[0]
        if k == "raw":
            if ex and n[1].startswith("set "):
                hit.append(1)
        elif k == "seq":
            for c in n[1]:
                rec(c, ex)
        elif k in ("and", "or"):
            rec(n[1], True)
            rec(n[2], ex)
        elif k == "not":
            rec(n[1], True)
        elif k == "if":
            rec(n[1], True)
            rec(n[2], ex)
            for c, b in n[3]:
                rec(c, True)
                rec(b, ex)
            if n[4] is not None:
                rec(n[4], ex)
        elif k in ("while", "until"):
            rec(n[2], True)
            rec(n[3], ex)
        elif k in ("for", "cfor"):
            rec(n[3], ex)
        elif k == "case":
            for _, b, _ in n[2]:
                rec(b, ex)
        elif k in ("group", "subshell"):
            rec(n[1], ex)
        elif k == "pipe":
            for i, c in enumerate(n[1]):
                rec(c, ex or i < len(n[1]) - 1)
        elif k == "wrap":
            rec(n[3], ex)
        elif k == "call":
            if ex and n[1] in funcs and any(m[0] == "raw" for m in gen_prog.walk(funcs[n[1]])):
                hit.append(1)

    rec(body, False)
    for fb in funcs.values():
        rec(fb, False)
    return bool(hit)


def judge(run, case, origin):
    script = render_case(case)
    rb, rr = diffrun.run_both(script)
    run.evaluations += 1
    ob, orf = obs3(rb), obs3(rr)
    ck = core.crash_kind(rb)
    if orf == ("timeout",):
        run.inconclusive += 1
        return
    if ob == orf and not ck:
        body, funcs, opts, errtrap = case
        # non-trivial: the shell stopped early (errexit fired) or an exempt failure was survived
        marks = orf[0]
        stopped = not marks or not marks[-1].startswith("@end")
        feats = tuple(sorted(set(n[0] if n[0] != "wrap" else n[1] for t in [body] + list(funcs.values())
                                 for n in gen_prog.walk(t)) - {"seq", "leaf"}))
        run.note_nontrivial((opts, errtrap, stopped, feats[:6]))
        run.count("stopped_early" if stopped else "ran_to_end")
        run.count("opts:" + "+".join(opts))
        return
    body, funcs, opts, errtrap = case

    def still(b, f):
        if hazards(b, f, errtrap):
            return False
        r1, r2 = diffrun.run_both(render_case((b, f, opts, errtrap)))
        o1, o2 = obs3(r1), obs3(r2)
        return o2 != ("timeout",) and (o1 != o2 or core.crash_kind(r1) is not None)

    b2, f2 = gen_prog.shrink(body, funcs, still, budget=150)
    s2 = render_case((b2, f2, opts, errtrap))
    r1, r2 = diffrun.run_both(s2)
    o1, o2 = obs3(r1), obs3(r2)
    feats = sorted(set(n[0] if n[0] != "wrap" else n[1] for t in [b2] + list(f2.values()) for n in gen_prog.walk(t)) - {"seq", "leaf"})
    from .c02 import shape
    sig = "C03|%s|%s|%s" % ("+".join(opts) + ("+errtrap" if errtrap else ""), ",".join(feats), shape(o1, o2, core.crash_kind(r1)))
    run.violation(sig, {"kind": "program", "origin": origin, "script": s2, "original_script": script,
                        "brush": diffrun.describe(o1), "bash": diffrun.describe(o2),
                        "first_diff": diffrun.first_diff(o1, o2), "crash": core.crash_kind(r1),
                        "brush_stderr": core.txt(r1.err[-1500:])})


# ---- systematic family: one failing leaf at every position of fixed skeletons -----------------------------

def skeletons():
    L = lambda m, s=0: ("leaf", m, s)
    F = "FAIL"
    sk = []
    sk.append(("seq", [L("a"), F, L("z")]))
    sk.append(("seq", [("if", F, ("seq", [L("t")]), [], ("seq", [L("el")])), L("z")]))
    sk.append(("seq", [("if", L("c"), ("seq", [F, L("t")]), [], None), L("z")]))
    sk.append(("seq", [("if", L("c", 1), ("seq", [L("t")]), [(F, ("seq", [L("t2")]))], ("seq", [L("el")])), L("z")]))
    sk.append(("seq", [("if", L("c", 1), ("seq", [L("t")]), [], ("seq", [F, L("el")])), L("z")]))
    sk.append(("seq", [("while", "i1", F, ("seq", [L("b")]), 2), L("z")]))
    sk.append(("seq", [("while", "i1", L("c"), ("seq", [L("b"), F, L("b2")]), 2), L("z")]))
    sk.append(("seq", [("until", "i1", F, ("seq", [L("b")]), 2), L("z")]))
    sk.append(("seq", [("for", "i1", ["1", "2"], ("seq", [F, L("b")])), L("z")]))
    sk.append(("seq", [("for", "i1", ["1", "2"], ("seq", [L("b"), F])), L("z")]))
    sk.append(("seq", [("and", F, L("r")), L("z")]))
    sk.append(("seq", [("and", L("l"), F), L("z")]))
    sk.append(("seq", [("or", F, L("r")), L("z")]))
    sk.append(("seq", [("or", L("l", 1), F), L("z")]))
    sk.append(("seq", [("or", ("and", F, L("m")), L("r")), L("z")]))
    sk.append(("seq", [("and", ("or", F, L("m", 1)), L("r")), L("z")]))
    sk.append(("seq", [("and", ("and", L("l"), L("m")), F), L("z")]))
    sk.append(("seq", [("and", ("or", F, L("m")), F), L("z")]))
    sk.append(("seq", [("or", ("and", L("l"), F), F), L("z")]))
    sk.append(("seq", [("and", ("and", ("and", L("l"), L("m")), L("n")), F), L("z")]))
    sk.append(("seq", [("group", ("seq", [("and", ("and", L("l"), L("m")), F)])), L("z")]))
    sk.append(("seq", [("not", F), L("z")]))
    sk.append(("seq", [("not", ("group", ("seq", [F, L("g")]))), L("z")]))
    sk.append(("seq", [("group", ("seq", [F, L("g")])), L("z")]))
    sk.append(("seq", [("group", ("seq", [L("g"), F])), L("z")]))
    sk.append(("seq", [("subshell", ("seq", [F, L("g")])), L("z")]))
    sk.append(("seq", [("subshell", ("seq", [L("g"), ("and", F, L("h"))])), L("z")]))
    sk.append(("seq", [("group", ("seq", [L("g"), ("and", F, L("h"))])), L("z")]))
    sk.append(("seq", [("case", "a", [(["a"], ("seq", [F, L("c1")]), ";;")]), L("z")]))
    sk.append(("seq", [("case", "a", [(["a"], ("seq", [L("c1"), ("or", F, F)]), ";&"), (["b"], ("seq", [L("c2")]), ";;")]), L("z")]))
    sk.append(("seq", [("pipe", [F, L("p2")]), L("z")]))
    sk.append(("seq", [("pipe", [L("p1"), F]), L("z")]))
    sk.append(("seq", [("pipe", [F, L("p2"), L("p3", 3)]), L("z")]))
    sk.append(("seq", [("pipe", [L("p1"), F, L("p3")]), L("z")]))
    sk.append(("seq", [("not", ("pipe", [L("p1"), F])), L("z")]))
    sk.append(("seq", [("wrap", "subst:assign", "x=$(\n{}\n)", ("seq", [F, L("s")])), L("z")]))
    sk.append(("seq", [("wrap", "subst:assign", "x=$(\n{}\n)", ("seq", [L("s"), F])), L("z")]))
    sk.append(("seq", [("wrap", "subst:arg", ": \"$(\n{}\n)\"", ("seq", [F, L("s")])), L("z")]))
    sk.append(("seq", [("wrap", "subst:echo", "echo \"@v $(\n{}\n)\" >&3", ("seq", [L("s"), F])), L("z")]))
    sk.append(("seq", [("wrap", "subst:export", "export x=$(\n{}\n)", ("seq", [L("s"), F])), L("z")]))
    sk.append(("seq", [("wrap", "eval", "eval '\n{}\n'", ("seq", [F, L("s")])), L("z")]))
    sk.append(("seq", [("wrap", "eval", "eval '\n{}\n'", ("seq", [("and", F, L("s"))])), L("z")]))
    sk.append(("seq", [("if", ("wrap", "eval", "eval '\n{}\n'", ("seq", [F, L("s")])), ("seq", [L("t")]), [], None), L("z")]))
    sk.append(("seq", [("wrap", "bg", "{\n{}\n} &\nwait", ("seq", [F, L("s")])), L("z")]))
    sk.append(("seq", [("call", "f1"), L("z")]))
    sk.append(("seq", [("if", ("call", "f1"), ("seq", [L("t")]), [], None), L("z")]))
    sk.append(("seq", [("and", ("call", "f1"), L("r")), L("z")]))
    sk.append(("seq", [("not", ("call", "f1")), L("z")]))
    sk.append(("seq", [("or", ("call", "f1"), L("r")), ("call", "f1"), L("z")]))
    sk.append(("seq", [("pipe", [("call", "f1"), L("p2")]), L("z")]))
    sk.append(("seq", [("wrap", "subst:assign", "x=$(\n{}\n)", ("seq", [("call", "f1")])), L("z")]))
    sk.append(("seq", [("if", ("wrap", "subst:assign", "x=$(\n{}\n)", ("seq", [("call", "f1")])), ("seq", [L("t")]), [], None), L("z")]))
    sk.append(("seq", [("while", "i1", ("group", ("seq", [("call", "f1")])), ("seq", [L("b")]), 1), L("z")]))
    sk.append(("seq", [("raw", "set +e"), F, ("raw", "set -e"), F, L("z")]))
    sk.append(("seq", [("subshell", ("seq", [("raw", "set +e"), F, L("g")])), F, L("z")]))
    sk.append(("seq", [("group", ("seq", [("raw", "set +e"), F, ("raw", "set -e")])), L("z")]))
    return sk


FUNCS_FOR_SKEL = [
    {"f1": ("seq", ["FAIL", ("leaf", "fz", 0)])},
    {"f1": ("seq", [("leaf", "fa", 0), "FAIL"])},
    {"f1": ("seq", [("and", "FAIL", ("leaf", "fr", 0)), ("leaf", "fz", 0)])},
    {"f1": ("seq", [("group", ("seq", [("and", "FAIL", ("leaf", "fr", 0))]))])},
    {"f1": ("seq", [("call", "f2"), ("leaf", "fz", 0)]), "f2": ("seq", ["FAIL", ("leaf", "gz", 0)])},
    {"f1": ("seq", [("raw", "set +e"), "FAIL", ("leaf", "fz", 0)])},
    {"f1": ("seq", [("wrap", "subst:local", "local y=$(\n{}\n)", ("seq", ["FAIL", ("leaf", "ls", 0)])), ("leaf", "fz", 0)])},
]


def subst_fail(tree, counter, status):
    """Replace every 'FAIL' placeholder by a failing leaf with a unique marker."""
    if tree == "FAIL":
        counter[0] += 1
        return ("leaf", "F%d" % counter[0], status)
    if isinstance(tree, tuple):
        return tuple(subst_fail(x, counter, status) for x in tree)
    if isinstance(tree, list):
        return [subst_fail(x, counter, status) for x in tree]
    return tree


def uses_call(tree):
    return any(n[0] == "call" for n in gen_prog.walk(tree))


def systematic_cases():
    out = []
    for sk in skeletons():
        fsets = FUNCS_FOR_SKEL if uses_call(sk) else [{}]
        for fs in fsets:
            for opts in OPTSETS:
                for errtrap in (False, True):
                    if errtrap and "e" in opts:
                        continue
                    for status in (1, 3):
                        if status == 3 and opts not in (("e",), ("e", "pipefail")):
                            continue
                        c = [0]
                        body = subst_fail(sk, c, status)
                        funcs = {k: subst_fail(v, c, status) for k, v in fs.items()}
                        if hazards(body, funcs, errtrap):
                            continue
                        out.append((body, funcs, opts, errtrap))
    return out


# ---- nounset family -------------------------------------------------------------------------------------

UEXP = ['$u', '${u}', '${u-}', '${u:-d}', '${u+x}', '${u:+x}', '${#u}', '${u[@]}', '"${u[*]}"', '${u[0]}', '${a[5]}',
        '${!u}', '$1', '$3', '"$@"', '$*', '${u:0:1}', '${u#p}', '${u%p}', '${u/p/r}', '${u^^}', '$((u+1))', '${u@Q}',
        '${#a[@]}', '${a[@]}', '"${a[@]}"', '${!a[@]}', '${a[@]:1}', '${#}', '$#', '${u:=d}', '${u:?msg}', '${u?msg}',
        '${mt:?msg}', '${mt?msg}', '${mt:-d}', '${!a}', '${a[-1]}', '${u,,}', '${@:1:1}', '${*:2}', '${#1}', '${#3}', '${3:-d}',
        '${u@U}', '${a[@]@Q}', '${!nope*}', '${!nope@}', '${a[u]}', '${mt[0]}', '${mt[1]}', '$_nope', '"$u$mt"',
        '${#u[@]}', '${#u[*]}', '${#u[0]}', '${#a[5]}', '${u[@]:1}', '${u[*]:0:1}', '${!u[@]}', '${u[@]#p}', '${u[@]/p/r}', '${u[@]^^}', '"${u[@]@Q}"']
USTATES = [("unset", ""), ("declared", "declare u"), ("emptyarr", "declare -a u; u=()"), ("localdecl", "LOCAL")]
UCTX = ["top", "func", "subshell", "cmdsubst", "cond", "assign", "redir", "herestr", "arith", "test"]


def nounset_script(exp, state, ctx, setu=True):
    pre = "unset u a mt 2>/dev/null; mt=''; a=(x y)\nset -- p1\n"
    if state[0] == "localdecl":
        decl = ""
    else:
        decl = state[1] + "\n" if state[1] else ""
    s = gen_prog.PRELUDE3 + pre + decl
    if setu:
        s += "set -u\n"
    s += "e before 0\n"
    use = 'echo "@x" %s' % exp
    if ctx == "top":
        s += use + '\necho "@? $?"\n'
    elif ctx == "func":
        loc = "local u; " if state[0] == "localdecl" else ""
        s += 'f() { %se inf 0; %s; echo "@? $?"; e inf2 0; }\nf\necho "@? $?"\n' % (loc, use)
    elif ctx == "subshell":
        s += '( e ins 0; %s; echo "@? $?"; e ins2 0 )\necho "@? $?"\n' % use
    elif ctx == "cmdsubst":
        s += 'x=$(e ins 0; %s; echo "@? $?"; e ins2 0)\necho "@? $?"\necho "$x"\n' % use
    elif ctx == "cond":
        s += 'if %s; then e t 0; else e f 0; fi\necho "@? $?"\n' % use
    elif ctx == "assign":
        s += 'y=%s\necho "@? $?"\n' % exp
    elif ctx == "redir":
        s += 'echo "@r" > out%s\necho "@? $?"\n' % exp
    elif ctx == "herestr":
        s += 'cat <<< %s >/dev/null\necho "@? $?"\n' % exp
    elif ctx == "arith":
        s += 'echo "@a $(( 1 + %s ))"\necho "@? $?"\n' % ("u" if "u" in exp else "1")
    elif ctx == "test":
        s += '[[ -n %s ]]\necho "@? $?"\n' % exp
    s += "e after 0\necho \"@end $?\" >&3\n"
    return s


def norm_nounset(obs):
    """Position + non-zero-ness: the exit status is reduced to zero/non-zero."""
    if obs == ("timeout",):
        return obs
    marks = tuple(m if not m.startswith("@? ") else ("@? " + ("0" if m == "@? 0" else "nz")) for m in obs[0])
    return (marks, obs[1], 0 if obs[2] == 0 else "nz")


def judge_nounset(run, item):
    exp, state, ctx, setu = item
    script = nounset_script(exp, state, ctx, setu)
    rb, rr = diffrun.run_both(script, args=())
    run.evaluations += 1
    ob, orf = norm_nounset(diffrun.observe(rb)), norm_nounset(diffrun.observe(rr))
    ck = core.crash_kind(rb)
    key = "nounset|%s|%s|%s|%s" % (exp, state[0], ctx, "u" if setu else "nou")
    kf = None
    if ob != orf and ob != ("timeout",) and orf != ("timeout",):
        b_end = bool(ob[0]) and ob[0][-1].startswith("@end")
        r_end = bool(orf[0]) and orf[0][-1].startswith("@end")
        cluster = None
        if b_end and not r_end and (ctx == "arith" or exp in ("$((u+1))", "${a[u]}")):
            cluster = "nounset-arith-not-fatal"
        elif b_end and not r_end and ctx == "redir":
            cluster = "nounset-redirect-target-not-fatal"
        elif r_end and not b_end and exp == "${!u}" and state[0] == "unset":
            cluster = "nounset-indirect-unset-fatal"
        elif exp in ("${#u[@]}", "${#u[*]}", "${#u[0]}") and state[0] in ("unset", "declared", "localdecl"):
            cluster = "nounset-count-of-unset-array-not-fatal"
        if cluster:
            kf = run.findings.match_signature(cluster)
    if ob == orf and not ck:
        aborted = not orf[0] or not orf[0][-1].startswith("@end")
        run.note_nontrivial(("nounset", exp, state[0], ctx, aborted))
        run.count("nounset_aborted" if aborted else "nounset_survived")
        return
    if kf:
        run.findings.report(kf, kf.get("title"))
        run.count("known:" + kf["id"])
        return
    sig = "C03|" + key + "|" + diffrun.first_diff(ob, orf).split(":")[0]
    run.violation(sig, {"kind": "nounset", "script": script, "exp": exp, "state": state[0], "ctx": ctx, "setu": setu,
                        "brush": diffrun.describe(ob), "bash": diffrun.describe(orf),
                        "first_diff": diffrun.first_diff(ob, orf), "crash": ck, "brush_stderr": core.txt(rb.err[-800:])})


def nounset_cases(quick, rng):
    items = []
    for exp in UEXP:
        for state in USTATES:
            for ctx in UCTX:
                if state[0] == "localdecl" and ctx != "func":
                    continue
                if ctx == "arith" and "u" not in exp:
                    continue
                items.append((exp, state, ctx, True))
    if quick:
        rng.shuffle(items)
        # keep all 'top' items (the decisive ones) plus a sample of the rest
        tops = [i for i in items if i[2] == "top"]
        rest = [i for i in items if i[2] != "top"][:500]
        items = tops + rest
    return items


def run(run):
    gen_prog.STYLE["probe"] = 'echo "@? $?" >&3'
    gen_prog.STYLE["case_paren"] = True   # `a)` inside $( ) is a brush parse defect (finding C02-F9); `(a)` parses
    quick = run.tier == "quick"
    scale = getattr(run, "scale", 1.0)
    run.rule = ("(a) systematic: a failing leaf at every position of ~55 skeletons (exempt and non-exempt contexts, "
                "functions, subshells, command substitutions, eval, pipelines, option toggles) x option sets "
                "{e, pipefail, E, inherit_errexit} x ERR trap; (b) random programs from the control-flow grammar with pipelines/"
                "substitutions/eval/set toggles under random option sets; (c) nounset: 50 expansion forms x variable state x "
                "10 contexts. compared with bash on marker trace + exit status (nounset: position + zero/non-zero). "
                "non-trivial = distinct (options, stopped-early?, construct set) / (expansion, state, context, aborted?)")
    run.assumptions = ["bash 5.2.15 is the reference", "numeric status of nounset aborts is not compared (1 vs 127)",
                       "stderr text not compared"]
    diffrun.run_canaries(run, prelude=gen_prog.PRELUDE3)

    sysc = systematic_cases()
    rng = run.rng("sys")
    if quick:
        rng.shuffle(sysc)
        sysc = sysc[: int(900 * scale)]
    run.count("systematic_cases", len(sysc))
    core.pmap(lambda c: judge(run, c, "systematic"), sysc)

    nu = nounset_cases(quick, run.rng("nounset"))
    run.count("nounset_cases", len(nu))
    core.pmap(lambda it: judge_nounset(run, it), nu)

    n = int((1200 if quick else 40000) * scale)
    rng = run.rng("random")
    cases = []
    while len(cases) < n:
        sub = random.Random(rng.getrandbits(64))
        g = G3(sub, max_depth=rng.choice([3, 4]), max_nodes=rng.choice([10, 20, 30]), statuses=(0, 0, 1, 3))
        body = g.seq(0, {}, 3)
        funcs = dict(g.funcs)
        opts = rng.choice(OPTSETS)
        errtrap = rng.random() < 0.5 and "e" not in opts
        if hazards(body, funcs, errtrap):
            errtrap = False
        if hazards(body, funcs, errtrap):
            run.count("skipped_hazard")
            continue
        cases.append((body, funcs, opts, errtrap))
    core.pmap(lambda c: judge(run, c, "random"), cases)
    run.sample({"script": render_case(cases[0])})
    run.sample({"script": render_case(sysc[0])})
    run.sample({"script": nounset_script(*nu[0])})


def replay(path):
    gen_prog.STYLE["probe"] = 'echo "@? $?" >&3'
    gen_prog.STYLE["case_paren"] = True   # `a)` inside $( ) is a brush parse defect (finding C02-F9); `(a)` parses
    with open(path) as f:
        rp = json.load(f)
    rb, rr = diffrun.run_both(rp["script"], mode=rp.get("mode", "file"))
    ob, orf = diffrun.observe(rb), diffrun.observe(rr)
    if rp.get("kind") == "nounset":
        ob, orf = norm_nounset(ob), norm_nounset(orf)
    print(json.dumps({"brush": diffrun.describe(ob), "bash": diffrun.describe(orf),
                      "first_diff": diffrun.first_diff(ob, orf), "brush_stderr": core.txt(rb.err[-800:])}, indent=1))
    if ob != orf or core.crash_kind(rb):
        print("VIOLATION property=C03 replay=%s" % path)
        return 1
    return 0
