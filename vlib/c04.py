"""C04 — quoted expansions arrive byte-exact: never re-split, re-globbed or re-parsed.

Definitional oracle: the value enters through the process environment (no shell syntax involved), the script passes
it through each expansion context to the external `argdump`, and the dumped bytes must equal what went in.
bash runs a sample of the same batches as oracle self-test (if bash "fails", the harness is wrong -> inconclusive).
"""
import itertools
import json
import os

from . import core

ALPHABET = [" ", "\t", "\n", ":", "*", "?", "[", "]", "{", "}", ",", "~", "'", '"', "`", "$", "\\", "!", "#", "&", ";",
            "|", "<", ">", "(", ")", "=", "-", "a", "b", "é", "🚀"]
BATCH = 40
CUSTOM_IFS = [":", ",", "!", "~"]   # (a multi-byte IFS makes bash 5.2 itself split a quoted "${a[@]}": excluded)      # characters that occur nowhere unquoted in the harness script text

IFS_MODES = ["default", "empty", "colon", "custom"]
GLOB_MODES = ["none", "nullglob", "failglob", "dotext", "noglob"]
QUICK_CONFIGS = [("default", "none"), ("empty", "none"), ("colon", "nullglob"), ("custom", "failglob"),
                 ("default", "dotext"), ("empty", "noglob"), ("custom", "none"), ("default", "nullglob")]

CONTEXTS = ["dq", "dqb", "arr", "pos", "subst", "assign", "elem", "case", "herestr", "dtest", "dtestq", "redir", "redir_unq", "adj",
            "unq_noifs", "unq_defifs", "assign_unq_case", "local", "export_env", "arr_star_noifs", "nested_dq",
            "adj_unq_pre", "adj_unq_suf", "adj_unq_mix", "adj_unq_arr"]


def hexs(b):
    return b.hex() if b else "-"


def script_for(n, ifs_mode, glob_mode):
    s = []
    g = {"none": "", "nullglob": "shopt -s nullglob", "failglob": "shopt -s failglob",
         "dotext": "shopt -s dotglob extglob", "noglob": "set -f"}[glob_mode]
    if g:
        s.append(g)
    for i in range(n):
        v = "V%d" % i
        w = "W%d" % i
        if ifs_mode == "default":
            setifs = "unset IFS"
        elif ifs_mode == "empty":
            setifs = "IFS="
        elif ifs_mode == "colon":
            setifs = "IFS=:"
        else:
            setifs = 'IFS="$C%d"' % i
        s.append(setifs)
        s.append('argdump -t dq.%d -- "$%s"' % (i, v))
        s.append('argdump -t dqb.%d -- "${%s}"' % (i, v))
        s.append('a=("$%s" "$%s"); argdump -t arr.%d -- "${a[@]}"' % (v, w, i))
        s.append('set -- "$%s" "$%s"; argdump -t pos.%d -- "$@"' % (v, w, i))
        s.append('argdump -t subst.%d -- "$(printf %%s "$%s")"' % (i, v))
        s.append('y=$%s; argdump -t assign.%d -- "$y"' % (v, i))
        s.append('a[2]=$%s; argdump -t elem.%d -- "${a[2]}"' % (v, i))
        s.append('case "$%s" in "$%s") argdump -t case.%d -- ok;; *) argdump -t case.%d -- no;; esac' % (v, v, i, i))
        s.append('cat <<<"$%s" > hs.%d' % (v, i))
        s.append('if [[ $%s == "$%s" ]]; then argdump -t dtest.%d -- ok; else argdump -t dtest.%d -- no; fi' % (v, v, i, i))
        s.append('if [[ "$%s" == "$%s" ]]; then argdump -t dtestq.%d -- ok; else argdump -t dtestq.%d -- no; fi' % (v, v, i, i))
        s.append('if [ -n "$R%d" ]; then echo x > "rd.%d/$%s"; fi' % (i, i, v))
        s.append('argdump -t adj.%d -- "p$%s""q${%s}r"' % (i, v, v))
        s.append('f() { local l=$%s; argdump -t local.%d -- "$l"; }; f' % (v, i))
        # quoted value glued to *unquoted* literal text (--opt="$x", "$x".bak): the quoted part is still not a pattern
        s.append('argdump -t adj_unq_pre.%d -- --pre="$%s"' % (i, v))
        s.append('argdump -t adj_unq_suf.%d -- "$%s".suf' % (i, v))
        s.append('argdump -t adj_unq_mix.%d -- p"${%s}"q\\*"$%s"' % (i, v, v))
        s.append('a=("$%s" "$%s"); argdump -t adj_unq_arr.%d -- x"${a[@]}"y' % (v, w, i))
        s.append('E%d=$%s envdump -t export_env.%d E%d' % (i, v, i, i))
        s.append('argdump -t nested_dq.%d -- "${%s:-"$%s"}" "${U%d-"$%s"}"' % (i, v, w, i, v))
        # unquoted clause: configurations where splitting and globbing are the identity / pure blank splitting
        s.append("set -f; IFS=")
        s.append('argdump -t unq_noifs.%d -- $%s' % (i, v))
        s.append('a=("$%s" "$%s"); argdump -t arr_star_noifs.%d -- ${a[@]}' % (v, w, i))
        s.append("unset IFS")
        s.append('argdump -t unq_defifs.%d -- $%s' % (i, v))
        # an unquoted redirection target is split like any word; exactly one resulting word names the file, otherwise nothing is opened
        s.append('if [ -n "$R%d" ]; then ( cd ur.%d && echo x > $%s ) 2>/dev/null; fi' % (i, i, v))
        s.append("case $%s in \"$%s\") argdump -t assign_unq_case.%d -- ok;; *) argdump -t assign_unq_case.%d -- no;; esac" % (v, v, i, i))
        if glob_mode != "noglob":
            s.append("set +f")
    return "\n".join(s) + "\n"


def strip_nl(b):
    return b.rstrip(b"\n")


def blank_split(b):
    out = []
    cur = b""
    for ch in b:
        c = bytes([ch])
        if c in (b" ", b"\t", b"\n"):
            if cur:
                out.append(cur)
            cur = b""
        else:
            cur += c
    if cur:
        out.append(cur)
    return out


def expected(ctx, v, w):
    """Expected argdump payload (list of byte strings) for a context."""
    if ctx in ("dq", "dqb", "assign", "elem", "local"):
        return [v]
    if ctx in ("arr", "pos"):
        return [v, w]
    if ctx == "subst":
        return [strip_nl(v)]
    if ctx in ("case", "dtest", "dtestq", "assign_unq_case"):
        return [b"ok"]
    if ctx == "adj":
        return [b"p" + v + b"q" + v + b"r"]
    if ctx == "nested_dq":
        return [v if v else w, v]
    if ctx == "adj_unq_pre":
        return [b"--pre=" + v]
    if ctx == "adj_unq_suf":
        return [v + b".suf"]
    if ctx == "adj_unq_mix":
        return [b"p" + v + b"q*" + v]
    if ctx == "adj_unq_arr":
        return [b"x" + v, w + b"y"]
    if ctx == "unq_noifs":
        return [v] if v else []
    if ctx == "arr_star_noifs":
        return [x for x in (v, w) if x]
    if ctx == "unq_defifs":
        return blank_split(v)
    raise ValueError(ctx)


def valid_filename(v):
    return bool(v) and b"/" not in v and v not in (b".", b"..") and len(v) <= 200


def make_tree(d, values):
    for name in ["*", "[x]", "a b", ".h", "ab", "a", "b"]:
        with open(os.path.join(d, name), "w") as f:
            f.write("x")
    for i, v in enumerate(values):
        os.mkdir(os.path.join(d, "rd.%d" % i))
        os.mkdir(os.path.join(d, "ur.%d" % i))
        if valid_filename(v):
            p = os.path.join(os.fsencode(d), v)
            if not os.path.lexists(p):
                try:
                    with open(p, "w") as f:
                        f.write("x")
                except OSError:
                    pass


def custom_ifs_for(v):
    s = v.decode("utf-8", "replace")
    for c in CUSTOM_IFS:
        if c in s:
            return c
    return ":"


def run_batch(shell, values, ws, cfg):
    d = core.new_scratch("b4")
    make_tree(d, values)
    env = {}
    for i, (v, w) in enumerate(zip(values, ws)):
        env["V%d" % i] = v
        env["W%d" % i] = w
        env["C%d" % i] = custom_ifs_for(v).encode()
        env["R%d" % i] = b"1" if valid_filename(v) else b""
    script = script_for(len(values), cfg[0], cfg[1])
    benv = {k.encode(): val for k, val in env.items()}
    base = {k.encode(): val.encode() for k, val in core.base_env(d).items()}
    base.update(benv)
    path = os.path.join(d, ".script.sh")
    with open(path, "w") as f:
        f.write(script)
    r = core.run_proc(core.shell_argv(shell) + [path], d, base, timeout=60)
    # collect observations
    obs = {}
    for line in r.out.split(b"\n"):
        if line.startswith(b"@A"):
            parts = line.split(b" ")
            tag = parts[0][2:].decode()
            n = int(parts[1])
            args = [b"" if h == b"-" else bytes.fromhex(h.decode()) for h in parts[2:]]
            if len(args) == n:
                obs[tag] = args
        elif line.startswith(b"@Eexport_env."):
            parts = line.split(b" ")
            tag = parts[0][2:].decode()
            vals = []
            for kv in parts[1:]:
                k, _, h = kv.partition(b"=")
                vals.append(b"" if h == b"-" else bytes.fromhex(h.decode()))
            obs[tag] = vals
    # files
    for i, v in enumerate(values):
        try:
            with open(os.path.join(d, "hs.%d" % i), "rb") as f:
                obs["herestr.%d" % i] = [f.read()]
        except OSError:
            pass
        try:
            obs["redir.%d" % i] = sorted(os.listdir(os.fsencode(os.path.join(d, "rd.%d" % i))))
            obs["redir_unq.%d" % i] = sorted(os.listdir(os.fsencode(os.path.join(d, "ur.%d" % i))))
        except OSError:
            pass
    core.rmtree(d)
    return obs, r


def check_batch(values, ws, obs):
    """Return list of (index, ctx, got, want)."""
    bad = []
    for i, (v, w) in enumerate(zip(values, ws)):
        for ctx in CONTEXTS:
            tag = "%s.%d" % (ctx, i)
            if ctx == "herestr":
                want = [v + b"\n"]
            elif ctx == "redir":
                want = [v] if valid_filename(v) else []
            elif ctx == "redir_unq":
                words = blank_split(v)
                want = [words[0]] if (valid_filename(v) and len(words) == 1 and valid_filename(words[0])) else []
            elif ctx == "export_env":
                want = [v]
            else:
                want = expected(ctx, v, w)
            got = obs.get(tag)
            if got != want:
                bad.append((i, ctx, got, want))
    return bad


def all_values(maxlen):
    vals = [b""]
    for n in range(1, maxlen + 1):
        for t in itertools.product(ALPHABET, repeat=n):
            vals.append("".join(t).encode("utf-8"))
    return vals


def random_values(rng, count, maxlen=40):
    out = []
    for _ in range(count):
        n = rng.randint(3, maxlen)
        out.append("".join(rng.choice(ALPHABET) for _ in range(n)).encode("utf-8"))
    return out


def judge_batch(run, job):
    values, ws, cfg, selftest = job
    obs, r = run_batch("brush", values, ws, cfg)
    bad = check_batch(values, ws, obs)
    run.evaluations += len(values) * len(CONTEXTS)
    ck = core.crash_kind(r)
    if selftest:
        bobs, _ = run_batch("bash", values, ws, cfg)
        bbad = check_batch(values, ws, bobs)
        run.count("bash_selftest_checks", len(values) * len(CONTEXTS))
        if bbad:
            run.count("bash_selftest_failures", len(bbad))
            run.selftest_fail.append((values[bbad[0][0]], bbad[0][1], cfg, bbad[0][2], bbad[0][3]))
    if not bad and not ck:
        for v in values:
            if any(c in v for c in b" \t\n*?[]{}~'\"`$\\"):
                run.note_nontrivial((v, cfg))
        run.count("cfg:%s/%s" % cfg, len(values))
        return
    # attribute precisely: re-run each failing value alone (a fatal error in a batch hides later values)
    seen = set()
    for (i, ctx, got, want) in bad:
        if i in seen:
            continue
        seen.add(i)
        o1, r1 = run_batch("brush", [values[i]], [ws[i]], cfg)
        b1 = check_batch([values[i]], [ws[i]], o1)
        ck1 = core.crash_kind(r1)
        if not b1 and not ck1:
            run.count("batch_only_failures")   # failed in the batch, fine alone: victim of an earlier value
            continue
        ctxs = sorted(set(c for _, c, _, _ in b1))
        first = b1[0] if b1 else (0, "crash", None, None)
        sig = "C04|%s|%s/%s|%s" % (",".join(ctxs)[:80], cfg[0], cfg[1], classify(values[i]))
        run.violation(sig, {"kind": "value", "value_hex": values[i].hex(), "value": values[i].decode("utf-8", "replace"),
                            "w_hex": ws[i].hex(), "cfg": list(cfg), "contexts_failing": ctxs,
                            "first": {"ctx": first[1], "got": [hexs(x) for x in (first[2] or [])] if first[2] is not None else None,
                                      "want": [hexs(x) for x in (first[3] or [])]},
                            "crash": ck1, "stderr": core.txt(r1.err[-800:])})


def classify(v):
    s = v.decode("utf-8", "replace")
    cls = sorted(set(("blank" if c in " \t\n" else "glob" if c in "*?[]" else "brace" if c in "{}," else
                      "quote" if c in "'\"\\`$" else "tilde" if c == "~" else "meta" if c in "!#&;|<>()=" else
                      "mb" if ord(c) > 127 else "plain") for c in s))
    return "+".join(cls) or "empty"


def run(run):
    quick = run.tier == "quick"
    scale = getattr(run, "scale", 1.0)
    run.selftest_fail = []
    run.rule = ("every string over a 32-symbol adversarial alphabet up to length %d (exhaustive) plus random strings to length 40 and 13 long values (4-33 KB) with a multi-byte character across every 4096/8192/32768-byte boundary, "
                "injected through the environment and passed through %d expansion contexts to an external argv dumper, under "
                "IFS in {default, empty, ':', a char of the value} x glob options {none, nullglob, failglob, dotglob+extglob, noglob} "
                "in a directory holding files the value could match; expected bytes are definitional. "
                "non-trivial = distinct (value containing a blank/glob/brace/quote/tilde char, configuration) that passed"
                % (2 if quick else 3, len(CONTEXTS)))
    run.assumptions = ["values contain no NUL", "custom IFS characters are limited to ones that occur nowhere unquoted in the harness text "
                       "(brush splits literal text on IFS - outside the given statements)"]
    rng = run.rng("values")
    vals = all_values(2 if quick else 3)
    vals += random_values(rng, int((300 if quick else 6000) * scale))
    configs = QUICK_CONFIGS if quick else [(a, b) for a in IFS_MODES for b in GLOB_MODES]
    jobs = []
    for ci, cfg in enumerate(configs):
        vs = list(vals)
        if not quick and len(vs) > 12000:
            # length-3 layer: every value under 4 configurations (rotating), everything else under all
            short = [v for v in vs if len(v.decode("utf-8", "replace")) <= 2 or len(v) > 12]
            long3 = [v for v in vs if v not in set(short)]
            vs = short + [v for k, v in enumerate(long3) if (k + ci) % 5 == 0]
        rng2 = run.rng("w%d" % ci)
        for k in range(0, len(vs), BATCH):
            chunk = vs[k:k + BATCH]
            ws = [rng2.choice(vals[:1057]) for _ in chunk]
            selftest = rng2.random() < (0.03 if quick else 0.01)
            jobs.append((chunk, ws, cfg, selftest))
    # long values: a multi-byte character lying across every 4096 / 8192 / 32768-byte boundary (read-chunk sizes),
    # and long values full of blanks and glob characters; 3 per process so that the environment stays small
    longs = []
    # (a single argument may not exceed 128 KiB on Linux and some contexts double the value: values stay below 40 KB)
    for base_len in (4096, 8192, 32768):
        for off in ((0, 1, 2, 3) if base_len < 32768 else (1, 3)):
            longs.append(b"a" * (base_len - off) + "\U0001f680\u00e9 b*".encode("utf-8") + b"c" * 17)
    longs.append(("a * " * 1100).encode())
    longs.append(("\u00e9" * 2047 + "x" + "\U0001f680" * 1030).encode("utf-8"))
    longs.append(b"x" * 4095 + "\u00e9".encode("utf-8") + b"\n\n")
    for ci, cfg in enumerate(configs if quick else configs[::3]):
        for k in range(0, len(longs), 3):
            chunk = longs[k:k + 3]
            jobs.append((chunk, [b"w"] * len(chunk), cfg, ci == 0 and k == 0))
    run.count("long_values", len(longs))
    run.count("batches", len(jobs))
    core.pmap(lambda j: judge_batch(run, j), jobs)
    if run.selftest_fail:
        v, ctx, cfg, got, want = run.selftest_fail[0]
        raise core.Inconclusive("oracle self-test: bash itself fails the definitional check for value %r ctx %s cfg %s (got %r want %r)"
                                % (v, ctx, cfg, got, want))
    run.sample({"value": "a *", "contexts": CONTEXTS, "config": list(configs[0]),
                "script_for_one_value": script_for(1, configs[0][0], configs[0][1])})
    run.extra["values"] = len(vals)
    run.extra["configs"] = len(configs)
    run.exhaustive = False


def replay(path):
    with open(path) as f:
        rp = json.load(f)
    v = bytes.fromhex(rp["value_hex"])
    w = bytes.fromhex(rp["w_hex"])
    cfg = tuple(rp["cfg"])
    obs, r = run_batch("brush", [v], [w], cfg)
    bad = check_batch([v], [w], obs)
    print(json.dumps({"value": rp["value"], "cfg": rp["cfg"], "failing": [(c, [hexs(x) for x in (g or [])], [hexs(x) for x in wn]) for _, c, g, wn in bad],
                      "stderr": core.txt(r.err[-500:])}, indent=1))
    if bad or core.crash_kind(r):
        print("VIOLATION property=C04 replay=%s" % path)
        return 1
    return 0
