"""C12 — subshell isolation: nothing done in a subshell changes the parent shell.

Definitional monitor: the parent takes a full state dump (declare -p, declare -f, set -o, shopt -p, alias, trap -p, pwd,
umask, ulimit -a, "$@", dirs; the descriptor table seen by an external `fdprobe`; and, for brush, the `save` JSON of the
whole Shell struct with volatile fields masked) before and after running mutators inside every kind of subshell
context; the two dumps must be identical. A third dump taken *inside* the subshell shows that the mutation really
happened there (non-triviality). The same harness is run under bash as oracle self-test. Status and captured output of
the subshell are compared with bash. A concurrent variant lets a background subshell mutate in a loop while the parent
takes repeated dumps.
"""
import json
import os
import re

from . import core

MUTATORS = [
    "v=changed", "newvar=1", "arr=(1 2 3)", "unset keepme", "declare -g g=1", "export e=1", "readonly r=1", "nf() { :; }", "unset -f keepf",
    "keepf() { echo redefined; }", "set -e", "set -u", "set -f", "set -C", "set -o pipefail", "shopt -s extglob", "shopt -u extglob",
    "shopt -s nullglob", "alias a=b", "unalias keepa", "trap 'echo x' EXIT", "trap 'echo x' ERR", "trap 'echo x' USR1", "trap - INT", "cd /",
    "cd sub", "pushd / >/dev/null", "umask 077", "ulimit -n 64", "ulimit -c 0", "set -- a b c", "shift", "exec 9> f9", "exec > f.out",
    "exec 2> f.err", "exec 8< in", "exit 3", "IFS=:", "PATH=/nonexistent", "OPTIND=5", "declare -A m=([k]=v)", "keepme+=x", "keeparr[1]=z",
    "declare -i keepme", "export -n keepexp", "declare +x keepexp", "local l=1 2>/dev/null", "hash -r", "set +o braceexpand", "shopt -s dotglob",
    "hash -p /bin/true mytrue", "hash -d keeph", "ls / >/dev/null", "getopts abc gko -abc", "getopts abc gko -abc; getopts abc gko -abc", "OPTIND=1",
    "readonly keepme", "unset keeparr", "set -o noclobber", "enable -n echo 2>/dev/null", "declare -l keepme", "POSIXLY_CORRECT=1",
]

CONTEXTS = {
    "subshell": "( {M} )",
    "cmdsubst": "x=$( {M} )",
    "backquote": "x=` {M} `",
    "pipe_first": "{ {M}; } | cat",
    "pipe_last": "echo | { {M}; }",
    "pipe_mid": "echo | { {M}; } | cat",
    "background": "{ {M}; } & wait",
    "procsub_in": "cat <( {M} ) >/dev/null",
    "procsub_out": ": > >( {M} ); msleep 40",
    "func_subshell": "fs() ( {M} ); fs",
    "nested": "( ( {M} ); x=$( {M} ) )",
    "subshell_redir": "( {M} ) > sub.out 2>&1",
    "background_jobspec": "{ {M}; } & wait %1",
    "background_current": "{ {M}; } & wait %+",
    "background_twice": "{ {M}; } & { msleep 5; } & wait %1; wait",
    # with job control on, lastpipe does not apply: the last stage is a subshell like any other
    "pipe_last_monitor_lastpipe": "echo | { {M}; }",
}
PRE_FOR_CONTEXT = {"pipe_last_monitor_lastpipe": "set -m; shopt -s lastpipe\n"}

VOLATILE = ["_", "RANDOM", "SECONDS", "BASH_COMMAND", "LINENO", "PIPESTATUS", "BASHPID", "FUNCNAME", "BASH_LINENO", "BASH_SOURCE", "EPOCHSECONDS",
            "EPOCHREALTIME", "SRANDOM", "BASH_ARGC", "BASH_ARGV", "PPID", "x", "_dn", "n", "BASH_SUBSHELL", "COLUMNS", "LINES", "OLDPWD_UNUSED", "BRUSH_VERSION"]

PRELUDE = r'''keepme=orig; keeparr=(a b c); export keepexp=ex; keepf() { echo kept; }; alias keepa=ls
mkdir -p sub; printf 'l1\nl2\n' > in
set -- p1 "p 2"
# the command hash table is parent state too: every command the contexts run by name is run once here, so that the table
# (BASH_CMDS / the Shell struct's program cache) does not change between the two parent dumps through the parent's own doing
hash -p /bin/cat keeph 2>/dev/null
cat /dev/null; msleep 0; echo | cat > /dev/null
# hidden state only behaviour shows: the parent is in the middle of an option cluster when the subshell runs
OPTIND=1; getopts abc gko -abc
dump() {
  local _dn=$1; shift
  {
    declare -p; echo "--funcs"; declare -f; echo "--seto"; set -o; echo "--shopt"; shopt -p; echo "--alias"; alias; echo "--trap"; trap -p
    echo "--pwd"; pwd; echo "--umask"; umask; echo "--ulimit"; ulimit -a; echo "--dirs"; dirs
  } > "$DUMPDIR/$_dn.txt" 2>&1
  "$TOOLDIR/argdump" -o "$DUMPDIR/$_dn.args" -- "$@"
  "$TOOLDIR/fdprobe" --names --max 20 -o "$DUMPDIR/$_dn.fd"
  if [ -n "${BRUSH_SAVE-}" ]; then save > "$DUMPDIR/$_dn.json" 2>/dev/null; fi
}
'''


BARE_CONTEXTS = {
    # the stage IS the assignment (no braces): a simple command with no command word still runs in the stage's own subshell
    "bare_pipe_first": "{M} | cat",
    "bare_pipe_mid": "echo | {M} | cat",
    "bare_pipe_two": "{M} | {M} | true",
    "bare_background": "{M} & wait",
}
BARE_MUTS = ["keepme=changed", "keeparr[1]=z", "keepme+=x", "newvar=1", "keeparr+=(q)", "IFS=:", "OPTIND=5", "newvar=$(echo sub)"]


def script(mutators, ctx, shell):
    # `ctx@sub` / `ctx@pipe`: the whole before / subshell / after sequence itself runs inside an enclosing subshell or pipeline
    # stage - the "parent" whose state must not change is then a subshell too (a nested `( )` must still be its own shell)
    ctx, _, outer = ctx.partition("@")
    m = "; ".join(mutators)
    if ctx in BARE_CONTEXTS:
        body = BARE_CONTEXTS[ctx].replace("{M}", mutators[0])
        pre = ""
    else:
        # the subshell ends with an explicit status so that what flows back does not depend on how the dump helper fares
        # under the mutated state (PATH emptied, noclobber, ...)
        inside = m + '; dump inside "$@"; exit 7'
        # the inside dump must run before `exit`: put it before an exit mutator
        if any(x.startswith("exit") for x in mutators):
            idx = next(i for i, x in enumerate(mutators) if x.startswith("exit"))
            inside = "; ".join(mutators[:idx] + ['dump inside "$@"'] + mutators[idx:]) + "; exit 7"
        body = CONTEXTS[ctx].replace("{M}", inside)
        pre = PRE_FOR_CONTEXT.get(ctx, "")
        if ctx == "func_subshell":
            # the function is part of the parent's state: define it before the first dump
            pre, body = body.split("; fs")[0] + "\n", "fs"
    core_part = 'dump before "$@"\n' + body + '\necho "@st $?"\n' + 'dump after "$@"\ngetopts abc gko -abc; echo "@gk $gko $OPTIND"\n'
    if outer == "sub":
        core_part = "(\n" + core_part + ")\n"
    elif outer == "pipe":
        core_part = "{\n" + core_part + "} | cat\n"
    return PRELUDE + pre + core_part + 'echo "@end"\n'


def mask_text(t):
    out = []
    for line in t.split("\n"):
        m = re.match(r"declare [-\w]+ (\w+)(=|$)", line)
        if m and m.group(1) in VOLATILE:
            continue
        out.append(line)
    return "\n".join(out)


def mask_json(j):
    try:
        d = json.loads(j)
    except ValueError:
        return None

    def scrub(x):
        if isinstance(x, dict):
            return {k: scrub(v) for k, v in x.items()
                    if k not in ("last_exit_status", "last_exit_status_change_count", "last_pipeline_statuses",
                                 "last_stopwatch_time", "last_stopwatch_offset", "depth", "call_stack", "entry_count") and k not in VOLATILE}
        if isinstance(x, list):
            return [scrub(v) for v in x]
        return x

    return scrub(d)


def run_one(shell, mutators, ctx):
    d = core.new_scratch("i12")
    dd = os.path.join(d, "dumps")
    os.mkdir(dd)
    env = {"DUMPDIR": dd, "TOOLDIR": core.TOOLS}
    if shell == "brush":
        env["BRUSH_SAVE"] = "1"
    r = core.run_shell(shell, script(mutators, ctx, shell), d, env_extra=env, timeout=30)
    res = {"rc": r.rc, "out": r.out, "err": r.err, "timed_out": r.timed_out}
    for name in ("before", "inside", "after"):
        for ext in ("txt", "args", "fd", "json"):
            p = os.path.join(dd, "%s.%s" % (name, ext))
            try:
                with open(p, "rb") as f:
                    res["%s.%s" % (name, ext)] = f.read().decode("utf-8", "replace")
            except OSError:
                res["%s.%s" % (name, ext)] = None
    core.rmtree(d)
    return res, r


def compare_dumps(res):
    """Returns list of (what, detail) differences between the before and after dumps."""
    diffs = []
    if res["after.txt"] is None:
        return [("parent-did-not-survive", "no dump after the subshell (rc=%s)" % res["rc"])]
    a, b = mask_text(res["before.txt"] or ""), mask_text(res["after.txt"])
    if a != b:
        al, bl = a.split("\n"), b.split("\n")
        only_a = [l for l in al if l not in bl][:3]
        only_b = [l for l in bl if l not in al][:3]
        sect = ""
        diffs.append(("state-text", "before-only=%r after-only=%r" % (only_a, only_b)))
    if res["before.args"] != res["after.args"]:
        diffs.append(("positional-params", "%r -> %r" % (res["before.args"], res["after.args"])))
    if res["before.fd"] != res["after.fd"]:
        diffs.append(("descriptors", "%r -> %r" % (res["before.fd"], res["after.fd"])))
    if res.get("before.json") and res.get("after.json"):
        ja, jb = mask_json(res["before.json"]), mask_json(res["after.json"])
        if ja is not None and jb is not None and ja != jb:
            keys = [k for k in ja if ja.get(k) != jb.get(k)] if isinstance(ja, dict) else []
            diffs.append(("shell-struct", "fields differing: %s" % keys[:6]))
    return diffs


def classify(mutators, ctx, diffs):
    """Signature of an open finding if the difference is exactly that defect."""
    ms = " ; ".join(mutators)
    kinds = set(d[0] for d in diffs)
    if kinds <= {"state-text"}:
        detail = diffs[0][1]
        if any(m.startswith("umask") for m in mutators) and re.search(r"'00\d\d'|00\d\d", detail) and not re.search(r"declare|--", detail):
            return "umask-process-wide"
        if any(m.startswith("ulimit") for m in mutators) and re.search(r"open files|core file|\(-[nc]\)", detail):
            return "ulimit-process-wide"
    return None


def judge(run, case, selftest=False):
    mutators, ctx = case
    res, r = run_one("brush", mutators, ctx)
    run.evaluations += 1
    ck = core.crash_kind(r)
    if res["timed_out"]:
        run.violation("C12|hang|%s|%s" % (ctx, mutators[0]), {"kind": "hang", "script": script(mutators, ctx, "brush")})
        return
    diffs = compare_dumps(res)
    if ck:
        diffs.append(("crash", ck))
    # behavioural continuation: the parent was at the first letter of `-abc` before the subshell; whatever getopts calls the
    # subshell made, the parent's next call yields the second letter (definitional; bash self-test below)
    gk = [l for l in res["out"].split(b"\n") if l.startswith(b"@gk")]
    if b"@end" in res["out"] and gk != [b"@gk b 1"]:
        diffs.append(("getopts-cursor", "parent's next getopts after the subshell gave %r, expected [b'@gk b 1']" % gk))
    inside_effect = res["inside.txt"] is not None and (mask_text(res["inside.txt"]) != mask_text(res["before.txt"] or "") or
                                                       res["inside.args"] != res["before.args"] or res["inside.fd"] != res["before.fd"])
    if selftest:
        hres, hr = run_one("bash", mutators, ctx)
        hd = compare_dumps(hres)
        hgk = [l for l in hres["out"].split(b"\n") if l.startswith(b"@gk")]
        if b"@end" in hres["out"] and hgk != [b"@gk b 1"]:
            hd.append(("getopts-cursor", repr(hgk)))
        run.count("bash_selftest_runs")
        if hd:
            run.selftest_fail.append((mutators, ctx, hd))
        # status and output of the subshell vs bash
        bm = [l for l in res["out"].split(b"\n") if l.startswith(b"@st")]
        hm = [l for l in hres["out"].split(b"\n") if l.startswith(b"@st")]
        # `wait %N` does not report the job's status in brush (the repository's suite carries `wait for specific failed PID` /
        # `Background job failure with wait` as known failures): the status is not compared in the job-spec contexts
        if bm != hm and not diffs and not ctx.startswith("background_"):
            run.count("status_differs_from_bash")
            run.violation("C12|status|%s|%s" % (ctx, mutators[0]), {"kind": "status", "script": script(mutators, ctx, "brush"),
                                                                 "brush": [x.decode() for x in bm], "bash": [x.decode() for x in hm]})
            return
    if not diffs:
        if inside_effect:
            run.note_nontrivial((tuple(mutators), ctx))
            run.count("effective_inside")
        else:
            run.count("no_effect_inside")
        run.count("ctx:" + ctx)
        return
    cl = classify(mutators, ctx, diffs)
    if cl:
        kf = run.findings.match_signature(cl)
        if kf:
            run.findings.report(kf)
            run.count("known:" + kf["id"])
            return
    sig = "C12|%s|%s|%s" % (ctx, ",".join(sorted(set(d[0] for d in diffs))), mutators[0] if len(mutators) == 1 else "seq:" + mutators[0])
    run.violation(sig, {"kind": "isolation", "mutators": mutators, "context": ctx, "differences": diffs, "script": script(mutators, ctx, "brush"),
                        "stderr": core.txt(res["err"][-500:])})


def concurrent_case(run, idx):
    """A background subshell keeps mutating while the parent takes 12 dumps: all must be equal."""
    rng = run.rng("conc%d" % idx)
    muts = [rng.choice([m for m in MUTATORS if not m.startswith(("exit", "exec", "umask", "ulimit", "cd sub"))]) for _ in range(6)]
    loop = "( for k in 1 2 3 4 5 6 7 8; do %s; msleep 3; done ) &" % "; ".join(muts)
    body = PRELUDE + loop + "\nfor n in 1 2 3 4 5 6 7 8 9 10 11 12; do dump d$n \"$@\"; msleep 2; done\nwait\necho '@end'\n"
    d = core.new_scratch("c12")
    dd = os.path.join(d, "dumps")
    os.mkdir(dd)
    r = core.run_shell("brush", body, d, env_extra={"DUMPDIR": dd, "TOOLDIR": core.TOOLS, "BRUSH_VERIF_PAUSE": "job.task_start=%d" % rng.choice([0, 5, 15])}, timeout=40)
    run.evaluations += 1
    dumps = []
    for n in range(1, 13):
        try:
            with open(os.path.join(dd, "d%d.txt" % n)) as f:
                t = mask_text(f.read())
            with open(os.path.join(dd, "d%d.fd" % n)) as f:
                fdt = f.read()
            dumps.append((t, fdt))
        except OSError:
            dumps.append(None)
    core.rmtree(d)
    if None in dumps or r.timed_out:
        run.inconclusive += 1
        return
    if any(x != dumps[0] for x in dumps[1:]):
        k = next(i for i, x in enumerate(dumps) if x != dumps[0])
        a, b = dumps[0][0].split("\n"), dumps[k][0].split("\n")
        run.violation("C12|concurrent|%s" % muts[0], {"kind": "concurrent", "mutators": muts, "dump_index": k,
                                                      "after-only": [l for l in b if l not in a][:4], "before-only": [l for l in a if l not in b][:4]})
    else:
        run.note_nontrivial(("concurrent", tuple(muts)))
        run.count("concurrent_runs_ok")


def run(run):
    quick = run.tier == "quick"
    scale = getattr(run, "scale", 1.0)
    rng = run.rng("c12")
    run.selftest_fail = []
    run.rule = ("full product of %d single mutators x %d subshell contexts, random mutator sequences of 2-4, and concurrent runs "
                "(a background subshell mutating in a loop while the parent takes 12 dumps, with a pause point delaying the job task); "
                "parent dump (builtin listings + external fd table + `save` JSON of the Shell struct) before == after. "
                "non-trivial = distinct (mutators, context) whose dump taken inside the subshell differed from the parent's, i.e. the "
                "mutation demonstrably happened" % (len(MUTATORS), len(CONTEXTS)))
    run.assumptions = ["volatile variables masked: " + ", ".join(VOLATILE[:12]) + ", ...",
                       "the same harness is run under bash on a sample as oracle self-test (bash must show no difference)",
                       "umask / ulimit are process-wide in brush (open findings C12-F1/F2): attributed only when the difference is exactly that value"]
    cases = [([m], c) for m in MUTATORS for c in CONTEXTS]
    nested = [([m], c + "@" + o) for m in MUTATORS for c in ("subshell", "cmdsubst", "pipe_first", "background", "func_subshell", "nested") for o in ("sub", "pipe")
              if not m.startswith(("exec >", "exec 2>", "cd sub"))]
    rng.shuffle(nested)
    if quick:
        rng.shuffle(cases)
        cases = cases[: int(420 * scale)]
        nested = nested[: int(90 * scale)]
    cases += nested
    cases += [([m], c) for m in BARE_MUTS for c in BARE_CONTEXTS]
    nseq = int((150 if quick else 6000) * scale)
    ctxs = list(CONTEXTS)
    for _ in range(nseq):
        ms = [rng.choice(MUTATORS) for _ in range(rng.randint(2, 4))]
        cases.append((ms, rng.choice(ctxs)))
    run.count("cases", len(cases))
    st = set(i for i in range(len(cases)) if i % (12 if quick else 40) == 0)
    core.pmap(lambda ic: judge(run, ic[1], selftest=ic[0] in st), list(enumerate(cases)))
    core.pmap(lambda i: concurrent_case(run, i), range(int((16 if quick else 400) * scale)))
    if run.selftest_fail:
        m, c, hd = run.selftest_fail[0]
        raise core.Inconclusive("oracle self-test: bash itself shows a parent-state difference for %r in %s: %s" % (m, c, hd[:2]))
    run.sample({"mutators": cases[0][0], "context": cases[0][1], "script": script(cases[0][0], cases[0][1], "brush")})


def replay(path):
    with open(path) as f:
        rp = json.load(f)
    if rp.get("kind") != "isolation":
        return 0
    res, r = run_one("brush", rp["mutators"], rp["context"])
    diffs = compare_dumps(res)
    print(json.dumps({"mutators": rp["mutators"], "context": rp["context"], "differences": diffs}, indent=1))
    if diffs:
        print("VIOLATION property=C12 replay=%s" % path)
        return 1
    return 0
