"""Batched differential engine for expansion-style properties (C05, C06, C08, C13).

A case is a block of shell text in which `{i}` stands for its index in the batch; everything the block prints that should
be compared carries a tag ending in `.{i}` (`argdump -t r.{i} -- WORD`, `echo "@s.{i} $?"`). Each block runs inside its
own `( )` so that fatal expansion errors and assignments stay local, followed by the frame marker `@z.{i} <status>`.
A batch whose frames are incomplete for brush (parse error, crash, fatal error) is bisected until the culprit is alone.
"""
import os

from . import core


MERGE_STDERR = [False]


def render(cases, prelude=""):
    # merged stderr: one `exec 2>&1` for the whole script (a per-block `( ) 2>&1` would itself interfere with what the
    # blocks do to fd 2)
    parts = [("exec 2>&1\n" if MERGE_STDERR[0] else "") + prelude]
    tail = ""
    for i, c in enumerate(cases):
        parts.append("(\n%s\n)%s\necho \"@z.%d $?\"" % (c["block"].replace("{i}", str(i)), tail, i))
    return "\n".join(parts) + "\n"


def parse(out):
    obs = {}
    for line in out.split(b"\n"):
        if not line.startswith(b"@"):
            continue
        head = line.split(b" ", 1)[0]
        if b"." not in head:
            continue
        tag, _, idx = head.rpartition(b".")
        try:
            i = int(idx)
        except ValueError:
            continue
        rest = line[len(head):]
        obs.setdefault(i, []).append((tag.decode("utf-8", "replace"), rest.decode("utf-8", "replace")))
    return obs


def run_shell_batch(shell, cases, prelude, setup_dir, env_extra, timeout):
    d = core.new_scratch("bt")
    if setup_dir:
        setup_dir(d)
    r = core.run_shell(shell, render(cases, prelude), d, env_extra=env_extra, timeout=timeout)
    core.rmtree(d)
    if NORM[0] is not None:
        out = r.out.replace(d.encode().hex().encode(), b"2f435744").replace(d.encode(), b"/CWD")
        return NORM[0](parse(out)), r
    # the scratch directory differs per execution; where it shows up inside hex-dumped arguments (`~+`, $PWD) it is
    # replaced by a fixed token so that both shells' observations are comparable
    out = r.out.replace(d.encode().hex().encode(), b"2f435744").replace(d.encode(), b"/CWD")
    return parse(out), r


def complete(obs, i):
    return any(t == "@z" for t, _ in obs.get(i, []))


NORM = [None]


def judge_all(run, cases, on_diff, prelude="", setup_dir=None, env_extra=None, batch=60, timeout=60, on_agree=None,
              allow_bash_missing=False, norm=None):
    """Runs all cases in batches under both shells; calls on_diff(case, brush_obs|None, bash_obs, crash, stderr) for
    divergences and on_agree(case, obs) for agreements."""
    batches = [cases[k:k + batch] for k in range(0, len(cases), batch)]
    NORM[0] = norm

    def work(chunk):
        oh, rh = run_shell_batch("bash", chunk, prelude, setup_dir, env_extra, timeout)
        _judge_chunk(run, chunk, oh, on_diff, on_agree, prelude, setup_dir, env_extra, timeout, allow_bash_missing)

    core.pmap(work, batches)


def _judge_chunk(run, chunk, oh, on_diff, on_agree, prelude, setup_dir, env_extra, timeout, allow_bash_missing, depth=0):
    ob, rb = run_shell_batch("brush", chunk, prelude, setup_dir, env_extra, timeout)
    missing = [i for i in range(len(chunk)) if not complete(ob, i)]
    if missing and len(chunk) > 1:
        # bisect: keep bash's observations, re-index halves
        mid = len(chunk) // 2
        for lo, hi in ((0, mid), (mid, len(chunk))):
            sub = chunk[lo:hi]
            soh = {i - lo: oh[i] for i in range(lo, hi) if i in oh}
            _judge_chunk(run, sub, soh, on_diff, on_agree, prelude, setup_dir, env_extra, timeout, allow_bash_missing, depth + 1)
        return
    ck = core.crash_kind(rb)
    for i, c in enumerate(chunk):
        run.evaluations += 1
        h = oh.get(i)
        if h is None or not complete(oh, i):
            run.count("bash_frame_missing")
            if not allow_bash_missing:
                run.inconclusive += 1
                continue
        b = ob.get(i)
        if b is not None and complete(ob, i) and b == h:
            if on_agree:
                on_agree(c, b)
            continue
        on_diff(c, b if (b is not None and complete(ob, i)) else None, h, ck if len(chunk) == 1 else None,
                core.txt(rb.err[-600:]) if len(chunk) == 1 else "")
