"""C20 — command history is saved once, in order, and reloads as saved.

In-process monitor (vharness history-*): every operation sequence over {add, add(blank-padded), add(#-leading), save,
new session, delete first/last, clear, toggle timestamps} is executed through the real API (Shell::add_to_history,
save_history, History::{import, remove_nth_item, clear, iter}, HISTFILE/HISTTIMEFORMAT, fresh Shell = new session)
and compared after every step with an executable model of the file plus property-level file invariants.
Process-level monitor: multi-session runs of `brush -o history` fed on stdin, history file checked by the same invariants.
"""
import json
import os

from . import core, inproc


def absorb(run, res, origin):
    if res.get("harness_timeout") or res.get("harness_error"):
        raise core.Inconclusive("vharness failed (%s): %s" % (origin, json.dumps(res)[:600]))
    if res.get("hang"):
        run.evaluations += 1
        run.violation("C20|hang|" + res.get("case", "")[:80], {"kind": "hang", "case": res.get("case")})
        return
    run.evaluations += res["sequences"]
    run.count(origin + "_sequences", res["sequences"])
    run.count(origin + "_steps", res["steps"])
    run.nt += res["nontrivial"]
    for s in res.get("samples", [])[:2]:
        run.sample(s)
    for v in res["violations"]:
        what = v["what"]
        kind = what.split(":")[1].strip().split(" ")[0] if ":" in what else what[:20]
        sig = "C20|%s|%s" % (origin, " ".join(what.split(":")[1:2]).strip()[:60])
        run.violation(sig, {"kind": "sequence", "ops": v["ops"], "seq": v.get("seq"), "what": what})


# ---- process-level sessions -------------------------------------------------------------------------------

def session_script(rng, sid, n):
    """A stdin session for `brush -o history`: unique commands interleaved with history -a/-w/-r/-c/-d."""
    lines = []
    cmds = []
    for k in range(n):
        r = rng.random()
        if r < 0.6:
            c = "echo s%dk%d >/dev/null" % (sid, k)
            lines.append(c)
            cmds.append(c)
        elif r < 0.8:
            lines.append("history -a")
        elif r < 0.9:
            lines.append("history -a")
            lines.append("history -a")
        else:
            lines.append(":")
            cmds.append(":")
    return "\n".join(lines) + "\n", cmds


def run_sessions(run, idx):
    rng = run.rng("sess%d" % idx)
    d = core.new_scratch("hs")
    hist = os.path.join(d, "histfile")
    nsess = rng.randint(2, 4)
    for s in range(nsess):
        script, cmds = session_script(rng, s, rng.randint(3, 8))
        env = {"HISTFILE": hist}
        if rng.random() < 0.4:
            env["HISTTIMEFORMAT"] = "%s "
        r = core.run_shell("brush", script, d, mode="stdin", env_extra=env, shell_opts=["-o", "history"], timeout=20)
        ck = core.crash_kind(r)
        if ck:
            run.violation("C20|session-crash|" + ck, {"kind": "session", "script": script, "stderr": core.txt(r.err[-500:])})
            core.rmtree(d)
            return
    run.evaluations += 1
    try:
        with open(hist) as f:
            content = f.read().split("\n")
    except OSError:
        content = []
    seen = {}
    bad = None
    lastk = {}
    for i, l in enumerate(content):
        if l.startswith("#") and l[1:].isdigit():
            nxt = content[i + 1] if i + 1 < len(content) else ""
            if not nxt or (nxt.startswith("#") and nxt[1:].isdigit()):
                bad = "timestamp line %d not followed by a command" % i
            continue
        if l.startswith("echo s"):
            if l in seen:
                bad = "command %r appears twice in the history file" % l
            seen[l] = i
            sid, k = l.split()[1][1:].split("k")
            if int(k) <= lastk.get(sid, -1):
                bad = "command %r out of recording order" % l
            lastk[sid] = int(k)
    core.rmtree(d)
    if bad:
        run.violation("C20|session|" + bad.split(" ")[0] + " " + " ".join(bad.split(" ")[-3:]),
                      {"kind": "session", "what": bad, "file": content[-30:]})
    elif len(seen) >= 2:
        run.nt_sessions += 1


def builtin_session(run, idx):
    """One stdin session driven through the `history` BUILTIN (positions as the user types them): unique commands, `history -d N` with
    positive and negative offsets after earlier deletions, `history -c` followed by new commands, ended by `history -w`; the written
    file must equal the one bash writes for the same session."""
    rng = run.rng("bs%d" % idx)
    lines = []
    count = 0
    for k in range(rng.randint(6, 16)):
        r = rng.random()
        if r < 0.55 or count < 2:
            lines.append("echo b%dk%d >/dev/null" % (idx, k))
        elif r < 0.85:
            # the `history -d` line itself is entry count+1 when it runs
            off = rng.choice([rng.randint(1, count), rng.randint(1, count), -rng.randint(1, count), 1, count])
            lines.append("history -d %d" % off)
            count -= 1
        elif r < 0.93:
            lines.append("history -c")
            count = -1
        else:
            lines.append("history -d %d" % (count + 5))       # out of range: an error, nothing removed
        count += 1
    lines.append("history -w out.f")
    script = "\n".join(lines) + "\n"
    outs = {}
    for sh in ("brush", "bash"):
        d = core.new_scratch("hb")
        r = core.run_shell(sh, script, d, mode="stdin", env_extra={"HISTFILE": os.path.join(d, "hf")}, shell_opts=["-o", "history"], timeout=20)
        if sh == "brush" and core.crash_kind(r):
            run.violation("C20|builtin-session-crash|" + core.crash_kind(r), {"kind": "builtin-session", "script": script, "stderr": core.txt(r.err[-500:])})
        try:
            with open(os.path.join(d, "out.f")) as f:
                outs[sh] = f.read().split("\n")
        except OSError:
            outs[sh] = None
        core.rmtree(d)
    run.evaluations += 1
    if outs["bash"] is None:
        run.count("bash_wrote_no_file")
        return
    if outs["brush"] != outs["bash"]:
        run.violation("C20|builtin-session|file after history -d / -c differs from bash", {"kind": "builtin-session", "script": script, "brush_file": outs["brush"], "bash_file": outs["bash"]})
    else:
        run.nt_sessions += 1
        run.count("builtin_sessions_agreeing")


def run(run):
    quick = run.tier == "quick"
    scale = getattr(run, "scale", 1.0)
    run.nt = 0
    run.nt_sessions = 0
    maxlen = 6 if quick else 7
    run.rule = ("all operation sequences of length <= %d over 11 history operations - add, add blank-padded, add #-leading, add raw with "
                "trailing blanks (as `history -s`), incremental save, full rewrite (as `history -w`), new session, delete first / last, clear, "
                "toggle timestamps - (11^1+...+11^%d sequences minus the region of open finding C20-F1, exhaustive) and random "
                "sequences of length 6-12, each replayed through the real history API and compared after every step with an "
                "executable model of file + session plus file invariants (exactly once, recording order, timestamp attached); "
                "plus multi-session `brush -o history` runs on stdin with `history -a`, and single sessions driven through the `history` builtin "
                "(`history -d N` with positive / negative offsets after earlier deletions, `history -c`, `history -w`) whose written file must equal bash's. non-trivial = sequences in which a save "
                "wrote data and a later reload/save observed it (counted in the harness)" % (maxlen, maxlen))
    run.assumptions = ["single-line commands; `#`-leading commands are recorded but excluded from the exactly-once claim as the statement says",
                       "timestamp values are normalised (their attachment, not their value, is compared)"]
    d = core.new_scratch("h20")
    # canary for open finding C20-F1 (add, rewrite, save): the exact sequence must still show the recorded duplicate, or be clean
    kf = next((e for e in run.findings.all_entries() if e["id"] == "C20-F1"), None)
    if kf:
        cres = inproc.run_harness(["history-random", "--seq", kf["sequence"], "--dir", d, "--threads", 1])
        v = cres.get("violations") or []
        if v and "appears more than once" in v[0].get("what", ""):
            run.findings.report(kf)
            run.count("canaries_known_defect")
        elif v:
            run.violation("C20|canary:C20-F1|" + v[0].get("what", "")[:60], {"kind": "sequence", "seq": v[0].get("seq"), "ops": v[0].get("ops"), "what": v[0].get("what")})
        else:
            run.count("canaries_no_longer_failing")
    res = inproc.run_harness(["history-exhaustive", "--maxlen", maxlen, "--dir", d], timeout=3000)
    absorb(run, res, "exhaustive")
    res = inproc.run_harness(["history-random", "--count", int((20000 if quick else 400000) * scale), "--seed", run.seed, "--len", 12, "--dir", d])
    absorb(run, res, "random")
    n = int((60 if quick else 1500) * scale)
    core.pmap(lambda i: run_sessions(run, i), range(n))
    nb = int((60 if quick else 1500) * scale)
    core.pmap(lambda i: builtin_session(run, i), range(nb))
    run.count("builtin_sessions", nb)
    run.count("process_sessions", n)
    run.count("process_sessions_nontrivial", run.nt_sessions)
    run.nontrivial = set(range(run.nt + run.nt_sessions))
    run.extra["exhaustive_maxlen"] = maxlen
    run.exhaustive = False


def replay(path):
    with open(path) as f:
        rp = json.load(f)
    if rp.get("kind") != "sequence":
        print("session replays are not deterministic; re-run the check with the same VERIF_SEED")
        return 0
    d = core.new_scratch("h20")
    res = inproc.run_harness(["history-random", "--seq", ",".join(str(x) for x in rp["seq"]), "--dir", d, "--threads", 1])
    print(json.dumps(res, indent=1)[:2000])
    if res.get("violations"):
        print("VIOLATION property=C20 replay=%s" % path)
        return 1
    return 0
