"""C17 — `wait` really waits: background work is complete and visible when it returns.

Event-log monitor: every job appends `done <id>` to an O_APPEND log through an external helper (one write(2) per line,
so the log order is a happens-before order), the foreground appends `fg <k>` markers and `WAITED <k>` right after each
`wait`. Offline checker over the recorded log: no `WAITED` precedes the `done` of a job launched before that wait;
every job id appears exactly once; foreground markers are in program order; in every `jobs` listing taken while jobs
are live the job numbers are distinct; and in the hook event log no `job.add` carries an id that is already live.
Schedules are varied by durations (every finishing permutation for small sets), CPU pinning (1, 2, all), delivery
mode (file and stdin) and pause points delaying job-task start and wait polling.
"""
import itertools
import json
import os
import random
import re

from . import core

PRELUDE = r'''jf() { msleep "$2"; logline "$L" "done $1"; }
'''


def job_text(kind, jid, d):
    if kind == "ext":
        return 'slog %d "$L" done %s &' % (d, jid)
    if kind == "group":
        return '{ msleep %d; logline "$L" done %s; } &' % (d, jid)
    if kind == "pipe":
        return 'msleep %d | { cat; logline "$L" done %s; } &' % (d, jid)
    if kind == "func":
        return 'jf %s %d &' % (jid, d)
    if kind == "loop":
        return 'for x in 1; do msleep %d; logline "$L" done %s; done &' % (d, jid)
    if kind == "subshell":
        return '( msleep %d; logline "$L" done %s ) &' % (d, jid)
    if kind == "andor":
        return 'msleep %d && logline "$L" done %s &' % (d, jid)
    # jobs that do their work and then END WITH A SHELL ERROR (failed expansion, division by zero, assignment to a readonly variable):
    # the error belongs to the job; `wait` must still wait for every other job and must not fail or be cut short by it
    if kind == "err_expand":
        return '{ msleep %d; logline "$L" done %s; : ${verif_never_set?gone}; } 2>/dev/null &' % (d, jid)
    if kind == "err_arith":
        return '{ msleep %d; logline "$L" done %s; : $((1/0)); } 2>/dev/null &' % (d, jid)
    if kind == "err_readonly":
        return '( msleep %d; logline "$L" done %s; readonly rr=1; rr=2 ) 2>/dev/null &' % (d, jid)
    # jobs whose output goes through the SHELL's own `>>` into one file shared by several jobs (and by the foreground): the redirection is
    # opened when the job starts and written later, so concurrent appenders overlap; after `wait` every line must be there exactly once
    if kind == "append_group":
        return '{ msleep %d; echo "app %s"; logline "$L" done %s; } >> "$D/app.log" &' % (d, jid, jid)
    if kind == "append_ext":
        return 'slog %d "$L" done %s >> "$D/app.log"; echo "app %s" >> "$D/app.log" &' % (d, jid, jid) if False else \
               '( msleep %d; logline "$L" done %s; echo "app %s" ) >> "$D/app.log" &' % (d, jid, jid)
    raise ValueError(kind)


KINDS = ["ext", "group", "pipe", "func", "loop", "subshell", "andor", "err_expand", "err_arith", "err_readonly", "append_group", "append_ext"]
DURS = [0, 15, 30, 45, 60]


def gen_case(rng, small=None):
    """Returns (script_lines, expectations). A program: phases of launches / fg markers / jobs queries / waits."""
    lines = []
    jid = 0
    fg = 0
    waits = 0
    launched = []          # job ids launched so far
    wait_expect = []       # for wait k: set of job ids that must be done before WAITED k
    listings = 0
    phases = rng.randint(1, 3)
    site = rng.choice(["top", "func", "loop"])
    for ph in range(phases):
        n = small if (small and ph == 0) else rng.randint(1, 4 if ph else 8)
        durs = [rng.choice(DURS) for _ in range(n)]
        block = []
        for d in durs:
            jid += 1
            block.append(job_text(rng.choice(KINDS), "j%d" % jid, d))
            launched.append("j%d" % jid)
            if rng.random() < 0.4:
                fg += 1
                block.append('logline "$L" fg %d' % fg)
                if rng.random() < 0.5:
                    block.append('echo "app fg%d" >> "$D/app.log"' % fg)
            if rng.random() < 0.25:
                listings += 1
                block.append('jobs > "$D/jobs.%d" 2>&1' % listings)
        if site == "func" and ph == 0:
            lines.append("launch() {\n%s\n}\nlaunch" % "\n".join(block))
        elif site == "loop" and ph == 0:
            lines.append("for once in 1; do\n%s\ndone" % "\n".join(block))
        else:
            lines.extend(block)
        if rng.random() < 0.3:
            lines.append("msleep %d" % rng.choice([10, 40, 80]))
            listings += 1
            lines.append('jobs > "$D/jobs.%d" 2>&1' % listings)
        if ph == 0 and n >= 3 and rng.random() < 0.35:
            # job-spec waits in ascending order first (numbers are 1..n in the first phase); the plain `wait` that follows must
            # still wait for every job, and the table must keep listing the live ones
            for i in range(1, rng.randint(2, n - 1) + 1):
                lines.append("wait %%%d" % i)
            listings += 1
            lines.append('jobs > "$D/jobs.%d" 2>&1' % listings)
        waits += 1
        lines.append("wait")
        lines.append('logline "$L" "WAITED %d $?"' % waits)
        wait_expect.append(set(launched))
        if rng.random() < 0.3:
            waits += 1
            lines.append("wait")
            lines.append('logline "$L" "WAITED %d $?"' % waits)
            wait_expect.append(set(launched))
        fg += 1
        lines.append('logline "$L" fg %d' % fg)
    lines.append("echo '@end'")
    return lines, {"jobs": launched, "wait_expect": [sorted(x) for x in wait_expect], "fg": fg, "listings": listings}


def permutation_cases():
    """Job sets of size 2-4 with distinct durations in every order: every finishing permutation occurs."""
    out = []
    for n in (2, 3, 4):
        for perm in itertools.permutations([0, 25, 50, 75][:n]):
            for kind in (["group"] * n, ["ext", "pipe", "func", "subshell"][:n]):
                lines = []
                ids = []
                for i, (d, k) in enumerate(zip(perm, kind)):
                    lines.append(job_text(k, "j%d" % (i + 1), d))
                    ids.append("j%d" % (i + 1))
                lines += ["wait", 'logline "$L" "WAITED 1 $?"', 'logline "$L" fg 1', "echo '@end'"]
                out.append((lines, {"jobs": ids, "wait_expect": [ids], "fg": 1, "listings": 0}))
                if n >= 3:
                    l2 = lines[:n] + ["wait %%%d" % i for i in range(1, n)] + ['jobs > "$D/jobs.1" 2>&1'] + lines[n:]
                    out.append((l2, {"jobs": ids, "wait_expect": [ids], "fg": 1, "listings": 1}))
    return out


def check_log(log, exp):
    bad = []
    done_pos = {}
    fg_seen = []
    for i, line in enumerate(log):
        p = line.split()
        if not p:
            continue
        if p[0] == "done":
            if p[1] in done_pos:
                bad.append(("job-ran-twice", "%s logged done twice" % p[1]))
            done_pos[p[1]] = i
        elif p[0] == "fg":
            fg_seen.append(int(p[1]))
        elif p[0] == "WAITED":
            k = int(p[1])
            need = exp["wait_expect"][k - 1] if k - 1 < len(exp["wait_expect"]) else []
            missing = [j for j in need if j not in done_pos]
            if missing:
                bad.append(("wait-returned-early", "WAITED %d logged before done of %s" % (k, missing)))
    for j in exp["jobs"]:
        if j not in done_pos:
            bad.append(("job-lost", "%s never logged done" % j))
    if fg_seen != sorted(fg_seen) or len(fg_seen) != exp["fg"]:
        bad.append(("foreground-order", "fg markers %s" % fg_seen))
    return bad


def run_case(run, case, mode, cpus, pause):
    lines, exp = case
    d = core.new_scratch("w17")
    dd = os.path.join(d, "obs")
    os.mkdir(dd)
    log = os.path.join(dd, "log")
    evlog = os.path.join(dd, "events")
    script = PRELUDE + "\n".join(lines) + "\n"
    env = {"L": log, "D": dd, "BRUSH_VERIF_LOG": evlog}
    if pause:
        env["BRUSH_VERIF_PAUSE"] = pause
    preexec = None
    if cpus:
        def preexec():
            try:
                os.sched_setaffinity(0, cpus)
            except OSError:
                pass
    r = core.run_shell("brush", script, d, mode=mode, env_extra=env, timeout=60, preexec=preexec)
    res = {"rc": r.rc, "timed_out": r.timed_out, "log": [], "listings": [], "events": []}
    try:
        with open(log) as f:
            res["log"] = [l.rstrip("\n") for l in f]
    except OSError:
        pass
    try:
        with open(os.path.join(dd, "app.log"), errors="replace") as f:
            res["app"] = [l.rstrip("\n") for l in f]
    except OSError:
        res["app"] = []
    for k in range(1, exp["listings"] + 1):
        try:
            with open(os.path.join(dd, "jobs.%d" % k)) as f:
                res["listings"].append(f.read())
        except OSError:
            res["listings"].append("")
    try:
        with open(evlog) as f:
            for line in f:
                try:
                    res["events"].append(json.loads(line))
                except ValueError:
                    pass
    except OSError:
        pass
    core.rmtree(d)
    return res, r, script


def judge(run, item):
    case, mode, cpus, pause = item
    res, r, script = run_case(run, case, mode, cpus, pause)
    run.evaluations += 1
    ck = core.crash_kind(r)
    exp = case[1]
    if res["timed_out"]:
        run.violation("C17|hang|%s" % mode, {"kind": "hang", "script": script, "log": res["log"]})
        return
    bad = check_log(res["log"], exp)
    if b"@end" not in r.out:
        bad.append(("script-did-not-finish", "rc=%s" % res["rc"]))
    want_app = re.findall(r'echo "(app \w+)"', script)
    got_app = res.get("app", [])
    for w in want_app:
        if got_app.count(w) != 1:
            bad.append(("appended-output-lost-or-doubled", "%r appears %d times in the shared append file %r" % (w, got_app.count(w), got_app[:12])))
            break
    if want_app and not any(b[0].startswith("appended") for b in bad):
        run.count("append_lines_verified", len(want_app))
    for k, text in enumerate(res["listings"]):
        nums = re.findall(r"^\[(\d+)\]", text, re.M)
        if len(nums) != len(set(nums)):
            bad.append(("duplicate-job-number", "jobs listing %d: %s" % (k + 1, nums)))
    adds = 0
    for ev in res["events"]:
        if ev.get("kind") == "job.add":
            adds += 1
            if ev["id"] in ev.get("live", []):
                bad.append(("duplicate-job-number", "job.add id=%s while live=%s" % (ev["id"], ev.get("live"))))
    if ck:
        bad.append(("crash", ck))
    if not bad:
        order = tuple(l.split()[1] for l in res["log"] if l.startswith("done"))
        run.orders.add(order)
        run.note_nontrivial((order, mode))
        run.count("job_add_events", adds)
        run.count("mode:" + mode)
        return
    kinds = sorted(set(b[0] for b in bad))
    sig = "C17|%s|%s" % (",".join(kinds), mode)
    kf = None
    if kinds == ["duplicate-job-number"] and mode == "stdin":
        kf = run.findings.match_signature("duplicate-job-number-after-lazy-removal")
    if kf:
        run.findings.report(kf)
        run.count("known:" + kf["id"])
        return
    run.violation(sig, {"kind": "jobs", "script": script, "mode": mode, "cpus": sorted(cpus) if cpus else None, "pause": pause,
                        "failures": bad, "log": res["log"], "listings": res["listings"], "expect": exp})


def run(run):
    quick = run.tier == "quick"
    scale = getattr(run, "scale", 1.0)
    rng = run.rng("c17")
    run.orders = set()
    run.rule = ("job sets of 1-8 jobs (12 kinds: one external command, brace group, pipeline, function, loop, subshell, and-or list, two that write through the shell's own `>>` into one file shared with other jobs and the foreground, and three that end with a shell error after doing their work: failed ${v?}, division by zero, assignment to a readonly variable) with "
                "durations from {0,15,30,45,60} ms, all finishing permutations for sets of 2-4, launched from top level / a function / a loop, "
                "interleaved with foreground markers, `jobs` listings, repeated waits and later launches; file and stdin delivery; CPUs pinned "
                "to 1, 2 or all; pause points on job-task start, wait_all and poll. Offline checks on the append-only log and the hook event "
                "log. non-trivial = distinct (finishing order observed in the log, delivery mode)")
    run.assumptions = ["log lines are single O_APPEND writes by an external helper: log order = happens-before order",
                       "`wait <pid>`, `wait -n`, `$!` are outside the statement"]
    from . import diffrun
    diffrun.run_canaries(run, prelude="")
    items = []
    cpusets = [None, {0}, {0, 1}]
    pauses = [None, "job.task_start=20", "job.task_start#1=40", "jobs.wait_all=30", "jobs.poll=10,job.task_start#2=25"]
    for case in permutation_cases():
        items.append((case, "file", rng.choice(cpusets), rng.choice(pauses)))
    n = int((160 if quick else 6000) * scale)
    for _ in range(n):
        case = gen_case(random.Random(rng.getrandbits(64)))
        items.append((case, rng.choice(["file", "stdin", "stdin", "c"]), rng.choice(cpusets), rng.choice(pauses)))
    if quick:
        rng.shuffle(items)
        items = items[: int(260 * scale)]
    core.pmap(lambda it: judge(run, it), items, workers=8)
    run.count("runs", len(items))
    run.extra["distinct_finishing_orders_observed"] = len(run.orders)
    run.sample({"script": PRELUDE + "\n".join(items[0][0][0]), "mode": items[0][1], "pause": items[0][3]})


def replay(path):
    with open(path) as f:
        rp = json.load(f)
    print("C17 violations depend on scheduling; re-run the check with the same VERIF_SEED. Script:\n" + rp.get("script", ""))
    return 0
