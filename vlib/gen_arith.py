"""Arithmetic expression trees: generator, renderer (minimal / full parentheses, random spacing) and a
wrapping-int64 C-style reference evaluator implementing bash's rules (the *second* reference; bash is the first)."""

M64 = (1 << 64) - 1
I64MIN = -(1 << 63)


def wrap(n):
    n &= M64
    return n - (1 << 64) if n >= (1 << 63) else n


class ArithError(Exception):
    pass


class Ambiguous(Exception):
    """Behaviour the C model leaves open (shift counts outside 0..63, INT_MIN / -1): decided by bash alone."""


BIN = {  # op: (precedence, right_assoc)   higher binds tighter
    "**": (13, True), "*": (12, False), "/": (12, False), "%": (12, False), "+": (11, False), "-": (11, False),
    "<<": (10, False), ">>": (10, False), "<": (9, False), "<=": (9, False), ">": (9, False), ">=": (9, False),
    "==": (8, False), "!=": (8, False), "&": (7, False), "^": (6, False), "|": (5, False), "&&": (4, False),
    "||": (3, False),
}
BINOPS = list(BIN)
UNOPS = ["-", "+", "!", "~"]
ASSIGNOPS = ["=", "*=", "/=", "%=", "+=", "-=", "<<=", ">>=", "&=", "^=", "|="]
P_TERNARY, P_ASSIGN, P_COMMA = 2, 1, 0
P_UNARY = 14
P_POSTFIX = 15

VARS = ["x", "y", "z", "u", "w"]
DIGITS = "0123456789abcdefghijklmnopqrstuvwxyzABCDEFGHIJKLMNOPQRSTUVWXYZ@_"


def parse_literal(text):
    """bash literal forms -> value (wrapping)."""
    t = text
    if "#" in t:
        b, d = t.split("#", 1)
        base = int(b)
        if base < 2 or base > 64 or d == "":
            raise ArithError("invalid base")
        v = 0
        for ch in d:
            if base <= 36:
                k = DIGITS.index(ch.lower()) if ch.lower() in DIGITS[:36] else 99
            else:
                k = DIGITS.index(ch) if ch in DIGITS else 99
            if k >= base:
                raise ArithError("value too great for base")
            v = v * base + k
        return wrap(v)
    if t.startswith(("0x", "0X")):
        if len(t) == 2:
            raise ArithError("bad hex")
        return wrap(int(t[2:], 16))
    if len(t) > 1 and t[0] == "0":
        if any(c not in "01234567" for c in t):
            raise ArithError("value too great for base")
        return wrap(int(t, 8))
    return wrap(int(t, 10))


# ---- tree nodes: ('lit', text) ('var', name) ('un', op, a) ('bin', op, a, b) ('pre', op, name) ('post', op, name)
#                  ('asg', op, name, a) ('tern', c, a, b) ('comma', a, b) ('paren', a)


def evaluate(node, env, depth=0):
    """env: dict name -> string (variable contents). Returns int. Mutates env like bash would."""
    k = node[0]
    if k == "lit":
        return parse_literal(node[1])
    if k == "var":
        return var_value(node[1], env, depth)
    if k == "paren":
        return evaluate(node[1], env, depth)
    if k == "un":
        v = evaluate(node[2], env, depth)
        op = node[1]
        if op == "-":
            return wrap(-v)
        if op == "+":
            return v
        if op == "!":
            return 0 if v else 1
        return wrap(~v)
    if k == "bin":
        op = node[1]
        if op == "&&":
            a = evaluate(node[2], env, depth)
            if not a:
                return 0
            return 1 if evaluate(node[3], env, depth) else 0
        if op == "||":
            a = evaluate(node[2], env, depth)
            if a:
                return 1
            return 1 if evaluate(node[3], env, depth) else 0
        a = evaluate(node[2], env, depth)
        b = evaluate(node[3], env, depth)
        return binop(op, a, b)
    if k in ("pre", "post"):
        name = node[2]
        old = var_value(name, env, depth)
        new = wrap(old + (1 if node[1] == "++" else -1))
        env[name] = str(new)
        return new if k == "pre" else old
    if k == "asg":
        op, name = node[1], node[2]
        if op == "=":
            v = evaluate(node[3], env, depth)
        else:
            cur = var_value(name, env, depth)       # bash reads the target before evaluating the right-hand side
            rhs = evaluate(node[3], env, depth)
            v = binop(op[:-1], cur, rhs)
        env[name] = str(v)
        return v
    if k == "tern":
        c = evaluate(node[1], env, depth)
        return evaluate(node[2] if c else node[3], env, depth)
    if k == "comma":
        evaluate(node[1], env, depth)
        return evaluate(node[2], env, depth)
    raise ValueError(k)


def binop(op, a, b):
    if op == "+":
        return wrap(a + b)
    if op == "-":
        return wrap(a - b)
    if op == "*":
        return wrap(a * b)
    if op in ("/", "%"):
        if b == 0:
            raise ArithError("division by 0")
        if a == I64MIN and b == -1:
            return I64MIN if op == "/" else 0      # bash special-cases this instead of trapping
        q = abs(a) // abs(b)
        if (a < 0) != (b < 0):
            q = -q
        return wrap(q) if op == "/" else wrap(a - q * b)
    if op == "**":
        if b < 0:
            raise ArithError("exponent less than 0")
        if b > 4096:
            raise Ambiguous("huge exponent")
        r = 1
        for _ in range(b):
            r = wrap(r * a)
        return r
    if op in ("<<", ">>"):
        b &= 63      # what the reference (bash on x86-64) does: the hardware masks the count; C leaves it undefined
        return wrap(a << b) if op == "<<" else a >> b
    if op == "<":
        return int(a < b)
    if op == "<=":
        return int(a <= b)
    if op == ">":
        return int(a > b)
    if op == ">=":
        return int(a >= b)
    if op == "==":
        return int(a == b)
    if op == "!=":
        return int(a != b)
    if op == "&":
        return wrap(a & b)
    if op == "^":
        return wrap(a ^ b)
    if op == "|":
        return wrap(a | b)
    raise ValueError(op)


def var_value(name, env, depth):
    s = env.get(name)
    if s is None or s.strip() == "":
        return 0
    if depth > 8:
        raise Ambiguous("recursion depth")
    s = s.strip()
    try:
        return parse_literal(s) if looks_literal(s) else evaluate(parse_simple(s), env, depth + 1)
    except (ValueError, IndexError):
        raise Ambiguous("variable content not modelled: %r" % s)


def looks_literal(s):
    return s[0].isdigit()


def parse_simple(s):
    """Variable contents used by the generator: a name, -N, or `A op B` with literal/name operands."""
    s = s.strip()
    if s.lstrip("-").isdigit():
        return ("lit", s) if not s.startswith("-") else ("un", "-", ("lit", s[1:]))
    if s.isidentifier():
        return ("var", s)
    for op in ("+", "*", "-"):
        if op in s[1:]:
            i = s.index(op, 1)
            return ("bin", op, parse_simple(s[:i]), parse_simple(s[i + 1:]))
    raise ValueError(s)


# ---- rendering --------------------------------------------------------------------------------------------

def prec(node):
    k = node[0]
    if k in ("lit", "var", "paren"):
        return 99
    if k == "post":
        return P_POSTFIX
    if k in ("un", "pre"):
        return P_UNARY
    if k == "bin":
        return BIN[node[1]][0]
    if k == "tern":
        return P_TERNARY
    if k == "asg":
        return P_ASSIGN
    return P_COMMA


def render(node, rng=None, full=False):
    sp = (lambda: rng.choice(["", " ", "  "])) if rng else (lambda: "")

    def r(n, need, side=None, parent=None):
        k = n[0]
        if k == "lit":
            s = n[1]
        elif k == "var":
            s = n[1]
        elif k == "paren":
            s = "(" + sp() + r(n[1], 0) + sp() + ")"
            return s
        elif k == "un":
            inner = r(n[2], P_UNARY)
            # avoid gluing `- -x` into `--x` and `+ +x` into `++x`
            gap = " " if inner[:1] in "+-" else sp()
            s = n[1] + gap + inner
        elif k == "pre":
            s = n[1] + n[2]
        elif k == "post":
            s = n[2] + n[1]
        elif k == "bin":
            p, right = BIN[n[1]]
            ls = r(n[2], p + (1 if right else 0))
            rs = r(n[3], p + (0 if right else 1))
            a, b = sp(), sp()
            # keep tokens apart where gluing would create another operator (`a - -b`, `a + +b`, `a & &b`...)
            if rs[:1] in "+-" and n[1][-1] in "+-":
                b = " "
            if ls[-1:] in "+-" and n[1][0] in "+-":
                a = " "
            s = ls + a + n[1] + b + rs
        elif k == "tern":
            s = r(n[1], P_TERNARY + 1) + sp() + "?" + sp() + r(n[2], P_ASSIGN + 1) + sp() + ":" + sp() + r(n[3], P_TERNARY)
        elif k == "asg":
            s = n[2] + sp() + n[1] + sp() + r(n[3], P_ASSIGN)
        else:
            s = r(n[1], P_COMMA) + sp() + "," + sp() + r(n[2], P_COMMA + 1)
        if full and k not in ("lit", "var", "pre", "post"):
            return "(" + s + ")"
        if prec(n) < need:
            return "(" + sp() + s + sp() + ")"
        return s

    return r(node, 0)


# ---- generation -------------------------------------------------------------------------------------------

LITS = ["0", "1", "2", "7", "63", "64", "2147483648", "9223372036854775807", "9223372036854775808", "010", "0x1F", "0xff",
        "2#101", "8#17", "16#fF", "36#z", "62#Z", "64#_", "64#@", "3", "5", "100"]


class AGen:
    def __init__(self, rng, max_depth=3, allow_assign=True, lits=None, vars_=None):
        self.rng = rng
        self.max_depth = max_depth
        self.allow_assign = allow_assign
        self.lits = lits or LITS
        self.vars = vars_ or VARS

    def operand(self):
        r = self.rng
        if r.random() < 0.55:
            return ("lit", r.choice(self.lits))
        return ("var", r.choice(self.vars))

    def node(self, depth=0):
        r = self.rng
        if depth >= self.max_depth or r.random() < 0.15:
            return self.operand()
        kind = r.choices(["bin", "un", "incdec", "asg", "tern", "comma", "paren"], [50, 12, 8, 10, 8, 4, 8])[0]
        d = depth + 1
        if kind == "bin":
            return ("bin", r.choice(BINOPS), self.node(d), self.node(d))
        if kind == "un":
            return ("un", r.choice(UNOPS), self.node(d))
        if kind == "incdec":
            return (r.choice(["pre", "post"]), r.choice(["++", "--"]), r.choice(self.vars[:3]))
        if kind == "asg":
            if not self.allow_assign:
                return self.operand()
            return ("paren", ("asg", r.choice(ASSIGNOPS), r.choice(self.vars[:3]), self.node(d)))
        if kind == "tern":
            return ("tern", self.node(d), self.node(d), self.node(d))
        if kind == "comma":
            return ("paren", ("comma", self.node(d), self.node(d)))
        return ("paren", self.node(d))


def all_pairs(lits=("2", "3", "5"), vars_=("x", "y")):
    """Every (parent op, child op, side) pair rendered WITHOUT redundant parentheses: the shape that exposes a
    precedence / associativity change. Operands are small distinct numbers so that groupings differ in value."""
    out = []
    ops = BINOPS
    a, b, c = ("lit", "7"), ("lit", "3"), ("lit", "2")
    for p in ops:
        for ch in ops:
            out.append(("bin", p, ("bin", ch, a, b), c))     # child on the left
            out.append(("bin", p, a, ("bin", ch, b, c)))     # child on the right
        for u in UNOPS:
            out.append(("bin", p, ("un", u, a), b))
            out.append(("bin", p, a, ("un", u, b)))
            out.append(("un", u, ("bin", p, a, b)))          # rendered with parens by need
        out.append(("tern", ("bin", p, a, b), b, c))
        out.append(("tern", a, ("bin", p, a, b), c))
        out.append(("tern", ("lit", "0"), b, ("bin", p, a, c)))
        out.append(("asg", "=", "x", ("bin", p, a, b)))
        for ao in ASSIGNOPS[1:]:
            out.append(("comma", ("asg", ao, "x", ("bin", p, a, b)), ("var", "x")))
    # triples of the same / equal-precedence operators (associativity)
    for p in ops:
        for q in ops:
            if BIN[p][0] == BIN[q][0]:
                out.append(("bin", q, ("bin", p, ("lit", "100"), ("lit", "7")), ("lit", "3")))
                out.append(("bin", p, ("lit", "100"), ("bin", q, ("lit", "7"), ("lit", "3"))))
                out.append(("bin", q, ("bin", p, ("lit", "2"), ("lit", "3")), ("lit", "2")))
                out.append(("bin", p, ("lit", "2"), ("bin", q, ("lit", "3"), ("lit", "2"))))
    for u1 in UNOPS:
        for u2 in UNOPS:
            out.append(("un", u1, ("un", u2, ("lit", "5"))))
        out.append(("un", u1, ("bin", "**", ("lit", "2"), ("lit", "2"))))
        out.append(("bin", "**", ("un", u1, ("lit", "2")), ("lit", "2")))
    # side-effect order probes
    for probe in [
        ("bin", "+", ("post", "++", "x"), ("var", "x")), ("bin", "+", ("var", "x"), ("post", "++", "x")),
        ("bin", "-", ("pre", "--", "x"), ("post", "--", "x")), ("asg", "=", "x", ("asg", "=", "y", ("lit", "5"))),
        ("asg", "+=", "x", ("post", "++", "x")), ("asg", "+=", "x", ("paren", ("asg", "=", "x", ("lit", "5")))),
        ("asg", "-=", "x", ("post", "++", "x")), ("asg", "*=", "x", ("paren", ("asg", "+=", "x", ("lit", "2")))),
        ("asg", "^=", "x", ("pre", "--", "x")), ("asg", "<<=", "x", ("paren", ("asg", "=", "x", ("lit", "1")))),
        ("bin", "&&", ("lit", "0"), ("paren", ("asg", "=", "y", ("lit", "9")))),
        ("bin", "||", ("lit", "1"), ("paren", ("asg", "=", "y", ("lit", "9")))),
        ("bin", "&&", ("lit", "1"), ("paren", ("asg", "=", "y", ("lit", "9")))),
        ("tern", ("lit", "1"), ("paren", ("asg", "=", "y", ("lit", "4"))), ("paren", ("asg", "=", "z", ("lit", "6")))),
        ("tern", ("lit", "0"), ("paren", ("asg", "=", "y", ("lit", "4"))), ("paren", ("asg", "=", "z", ("lit", "6")))),
        ("comma", ("asg", "=", "x", ("lit", "3")), ("bin", "*", ("var", "x"), ("post", "++", "x"))),
        ("bin", "+", ("bin", "*", ("post", "++", "x"), ("post", "++", "x")), ("post", "++", "x")),
    ]:
        out.append(probe)
    return out
